"""C05 - 1014 unblocking: reads return the exact payload stream for every read sequence; validating unblocker."""
import io
import os
import shutil
import tempfile

from hypothesis import strategies as st

from vlib import harness, refvbs
from vlib.strat import uniform
from vlib.harness import exc_sig
from cardutil import mciipm
from props import c03

LEVEL = 'fault_enumeration'
EXHAUSTIVE = True
TECHNIQUE = 'exhaustive (delivered residue x chunking x next read size) enumeration and Hypothesis read sequences against a payload+cursor model; every truncation length and every trailer-byte substitution for unblock_1014'
RULE = ('Unblock1014 over reference-blocked position-coded data (0..5 blocks, with/without trailing all-fill block) is '
        'compared with a model (payload stream + cursor): every sized read returns payload[cur:cur+n], a size-less read '
        'everything that remains, reads at the end b"". Enumerated: every delivered residue 0..1011 reached by three '
        'chunkings x next size (quick: boundary sizes; thorough: every 1..2024) then read(). Hypothesis: sequences of 1..12 '
        'reads. VbsReader(blocked) is compared with VbsReader on the unblocked stream. unblock_1014: every truncation '
        'length 0..len of 1..4-block files, all 255 substitutions of each trailer byte of each block (must be refused), '
        'substitutions elsewhere (must change exactly that payload byte). Non-trivial = a read spanning a block edge, or a '
        'fault in a block other than the last; distinct by enumeration index / digest.')
ASSUMPTIONS = ['read(0) and negative sizes are not generated (0 means "no size" in the signature; not claimed by the property)',
               'blocked inputs for the read model are whole blocks (truncated files belong to C09)',
               'a refusal by unblock_1014 is any exception (the library raises MciIpmDataError)']

POS = c03.POS


def blocked_input(nbytes, extra_fill_block=False):
    data = POS[:nbytes]
    b = refvbs.block(data)
    if extra_fill_block:
        b += b'\x40' * 1014
    return b


BIG = blocked_input(5 * 1012 - 30)
BIG_PAYLOAD = refvbs.payload_of(BIG)
OTHER = refvbs.block(bytes((i * 7 + 3) % 251 for i in range(9 * 1012 + 17)))
OTHER_PAYLOAD = refvbs.payload_of(OTHER)


def do_reads(blocked, sizes, source=None):
    """sizes: ints or None (size-less). returns None or (sig, msg). source: an open binary file to wrap instead of BytesIO"""
    payload = refvbs.payload_of(blocked)
    u = mciipm.Unblock1014(source if source is not None else io.BytesIO(blocked))
    cur = 0
    # a second unblocker over other data is read from in between (two files open at once): each keeps its own place
    other = mciipm.Unblock1014(io.BytesIO(OTHER)) if len(sizes) % 2 else None
    ocur = 0
    for i, n in enumerate(sizes):
        try:
            got = u.read(n) if n is not None else u.read()
        except Exception as ex:
            return exc_sig('read-raises', ex), f'reads {sizes[:i + 1]} on {len(blocked)}-byte input raised {ex!r}'
        if other is not None:
            k = 7 + 331 * i
            try:
                og = other.read(k)
            except Exception as ex:
                return exc_sig('read-raises:second-instance', ex), f'a second unblocker read in between raised {ex!r}'
            if og != OTHER_PAYLOAD[ocur:ocur + k]:
                return 'second-instance-disturbed', f'a second unblocker, read from in between reads {sizes[:i + 1]}, returned wrong data at offset {ocur}'
            ocur += len(og)
        if n is None:
            want = payload[cur:]
            cur = len(payload)
            if got != want:
                return 'read-all', (f'read() after {sizes[:i]} on a {len(blocked) // 1014}-block input returned {len(got)} bytes, '
                                    f'{len(want)} remain')
        else:
            want = payload[cur:cur + n]
            cur += len(want)
            if got != want:
                kind = 'read-at-end' if not want else 'sized-read'
                return kind, (f'read({n}) after {sizes[:i]} returned {len(got)} bytes, expected {len(want)}'
                              + ('' if len(got) != len(want) else f' (content differs at {c03._first_diff(got, want)})'))
    return None


def chunkings(r):
    out = [[r], [r // 2, r - r // 2], [1012 + r]]
    return [[c for c in ch if c > 0] for ch in out]


def boundary_sizes(r):
    fit = 1012 - r
    s = {1, 2, 3, 4, fit - 1, fit, fit + 1, 1011, 1012, 1013, 1014, fit + 1011, fit + 1012, fit + 1013, 2023, 2024}
    return sorted(x for x in s if 1 <= x <= 2024)


def sweep_reads(ctx, residues, full):
    n = nt = 0
    for r in residues:
        for ch in chunkings(r):
            for size in (range(1, 2025) if full else boundary_sizes(r)):
                n += 1
                if r + size > 1012:
                    nt += 1
                seq = ch + [size, None, 5, None]
                res = do_reads(BIG, seq)
                if res:
                    ctx.report(res[0], {'nbytes': 5 * 1012 - 30, 'extra': False, 'sizes': seq}, res[1])
    ctx.bulk(n, nontrivial_distinct=nt, label='residue-x-size')
    ctx.enumerated('every delivered residue 0..1011 x 3 chunkings x ' + ('every next size 1..2024' if full else 'boundary next sizes') + ', then read() and reads at the end')
    if 0 in residues:
        ctx.sample({'input': '5 blocks of position-coded payload', 'sizes': chunkings(700)[1] + [313, None, 5, None]})


SIZE = st.one_of(st.sampled_from([1, 2, 4, 1010, 1011, 1012, 1013, 1014, 2024, 2025]), uniform(1, 2600), st.none())
READS = st.tuples(uniform(0, 5 * 1012 + 20), st.booleans(), st.lists(SIZE, min_size=1, max_size=12))


def hyp_reads(ctx, n):
    def body(v):
        nbytes, extra, sizes = v
        blocked = blocked_input(nbytes, extra)
        spans = False
        cur = 0
        for s in sizes:
            if s is None:
                break
            if cur // 1012 != (cur + s - 1) // 1012 and cur + s <= len(blocked) // 1014 * 1012:
                spans = True
            cur += s
        ctx.case(key=harness.digest((nbytes, extra, sizes)), nontrivial=spans,
                 labels=['reads', 'has-read-all' if None in sizes else 'sized-only', f'blocks={len(blocked) // 1014}'])
        if len(ctx.samples) < 4 and spans:
            ctx.sample({'payload_bytes': nbytes, 'extra_fill_block': extra, 'sizes': sizes})
        res = do_reads(blocked, sizes)
        if res:
            ctx.fail(res[0], {'nbytes': nbytes, 'extra': extra, 'sizes': sizes}, res[1])
        if (nbytes + len(sizes)) % 4 == 0:
            # the same reads over a real operating-system file, buffered and unbuffered
            path = os.path.join(scratch, 'blocked.bin')
            with open(path, 'wb') as f:
                f.write(blocked)
            # `peek`: the caller looked at the first bytes and rewound (as one does after ipm_info), so the buffered
            # reader already holds read-ahead when the unblocker starts
            for buffering, peek in ((-1, 0), (0, 0), (-1, 4), (1500, 24)):
                with open(path, 'rb', buffering=buffering) as f:
                    if peek:
                        f.read(peek)
                        f.seek(0)
                    res = do_reads(blocked, sizes, source=f)
                ctx.labels['real-file-reads'] += 1
                if res:
                    ctx.fail(res[0] + ':real-file', {'nbytes': nbytes, 'extra': extra, 'sizes': sizes, 'buffering': buffering, 'peek': peek},
                             res[1] + f' (real file, buffering={buffering}, {peek} bytes read and rewound first)')
    scratch = tempfile.mkdtemp(prefix='cardutil-verif-c05-')
    try:
        harness.drive(ctx, READS, body, n, salt='reads')
    finally:
        shutil.rmtree(scratch, ignore_errors=True)


def records_equiv(records):
    x = refvbs.vbs(records)
    try:
        a = list(mciipm.VbsReader(io.BytesIO(refvbs.block(x)), blocked=True))
        b = list(mciipm.VbsReader(io.BytesIO(x)))
    except Exception as ex:
        return exc_sig('records-raise', ex), f'reading {[len(r) for r in records][:8]} raised {ex!r}'
    if a != b or a != list(records):
        return 'records-differ', (f'record lengths {[len(r) for r in records][:8]}: blocked reader gives '
                                  f'{[len(r) for r in a][:8]}, unblocked reader {[len(r) for r in b][:8]}')
    return None


def hyp_records(ctx, n):
    def body(v):
        spec, _ = v
        total = sum(k + 4 for k, _, _ in spec) + 4
        ctx.case(key=harness.digest(('rec', spec)), nontrivial=total > 1012, labels=['record-equivalence'])
        res = records_equiv(c03.build(spec))
        if res:
            ctx.fail(res[0], {'spec': spec}, res[1])
    harness.drive(ctx, c03.spec_strategy(max_records=25), body, n, salt='records')


# ---- unblock_1014 fault enumeration

def unblock(data):
    out = io.BytesIO()
    mciipm.unblock_1014(io.BytesIO(data), out)
    return out.getvalue()


def check_unblock(data):
    """compare the library with the strict reference on arbitrary bytes"""
    verdict, want = refvbs.unblock_strict(data)
    try:
        got = unblock(data)
    except Exception as ex:
        if verdict == 'ok':
            return 'unblock:rejects-valid', f'{len(data)}-byte well-formed blocked input refused: {ex!r}'
        return None
    if verdict == 'error':
        return ('unblock:accepts-' + ('truncated' if len(data) % 1014 else 'bad-trailer'),
                f'{len(data)}-byte input accepted although: {want}')
    if got != want:
        return 'unblock:wrong-output', f'{len(data)}-byte input: output {len(got)} bytes differs from payload ({len(want)} bytes) at {c03._first_diff(got, want)}'
    return None


def sweep_unblock(ctx, nblocks):
    base = blocked_input(nblocks * 1012 - 17)
    n = nt = 0
    for cut in range(0, len(base) + 1):
        n += 1
        nt += 1 if cut < len(base) - 1014 else 0
        res = check_unblock(base[:cut])
        if res:
            ctx.report(res[0], {'nblocks': nblocks, 'cut': cut}, res[1])
    ctx.label('unblock-truncation', n)
    m = 0
    for b in range(nblocks):
        for off in (1012, 1013):
            pos = b * 1014 + off
            for val in range(256):
                if val == 0x40:
                    continue
                m += 1
                nt += 1 if b < nblocks - 1 else 0
                data = base[:pos] + bytes([val]) + base[pos + 1:]
                res = check_unblock(data)
                if res:
                    ctx.report(res[0], {'nblocks': nblocks, 'pos': pos, 'val': val}, res[1])
    ctx.label('unblock-trailer-substitution', m)
    k = 0
    for pos in list(range(0, len(base), 53)) + [b * 1014 + o for b in range(nblocks) for o in (0, 1, 1010, 1011)]:
        if pos % 1014 >= 1012:
            continue
        for val in (0x00, 0x40, 0xff, (base[pos] + 1) % 256):
            k += 1
            data = base[:pos] + bytes([val]) + base[pos + 1:]
            res = check_unblock(data)
            if res:
                ctx.report(res[0], {'nblocks': nblocks, 'pos': pos, 'val': val}, res[1])
    ctx.label('unblock-payload-substitution', k)
    ctx.bulk(n + m + k, nontrivial_distinct=nt)
    ctx.enumerated(f'unblock_1014 on a {nblocks}-block file: every truncation length, all 255 substitutions of each trailer byte')
    ctx.sample({'unblock_1014': {'blocks': nblocks, 'fault': 'trailer byte 1012 of block 0 := 0x41'}})


def roundtrip(ctx):
    n = 0
    for total in list(range(0, 40)) + list(range(1000, 1030)) + list(range(2010, 2040)) + [3036, 4048, 5000]:
        n += 1
        x = POS[:total]
        o = io.BytesIO()
        try:
            mciipm.block_1014(io.BytesIO(x), o)
            got = unblock(o.getvalue())
        except Exception as ex:
            ctx.report(exc_sig('roundtrip-raises', ex), {'roundtrip': total}, f'block_1014/unblock_1014 of {total} bytes raised {ex!r}')
            continue
        if not (got.startswith(x) and not got[len(x):].strip(b'\x40') and len(got) - len(x) < 2024):
            ctx.report('roundtrip', {'roundtrip': total}, f'unblock_1014(block_1014(x)) != x + fill for len(x)={total}')
    ctx.bulk(n, nontrivial_distinct=sum(1 for _ in range(n)) - 40, label='roundtrip')


def tasks(tier, seed):
    full = tier == 'thorough'
    t = []
    step = 64 if not full else 16
    for lo in range(0, 1012, step):
        t.append(('sweep_reads', dict(residues=list(range(lo, min(lo + step, 1012))), full=full)))
    for nb in (1, 2, 3, 4):
        t.append(('sweep_unblock', dict(nblocks=nb)))
    t.append(('roundtrip', {}))
    for i in range(4 if not full else 12):
        t.append(('hyp_reads', dict(n=300 if not full else 2000)))
    for i in range(2 if not full else 4):
        t.append(('hyp_records', dict(n=150 if not full else 800)))
    return t


def replay(case):
    if 'sizes' in case and 'buffering' in case:
        d = tempfile.mkdtemp(prefix='cardutil-verif-c05-')
        try:
            data = blocked_input(case['nbytes'], case.get('extra', False))
            with open(os.path.join(d, 'b.bin'), 'wb') as f:
                f.write(data)
            with open(os.path.join(d, 'b.bin'), 'rb', buffering=case['buffering']) as f:
                if case.get('peek'):
                    f.read(case['peek'])
                    f.seek(0)
                res = do_reads(data, list(case['sizes']), source=f)
            return (res[0] + ':real-file', res[1]) if res else None
        finally:
            shutil.rmtree(d, ignore_errors=True)
    if 'sizes' in case:
        return do_reads(blocked_input(case['nbytes'], case.get('extra', False)), list(case['sizes']))
    if 'spec' in case:
        return records_equiv(c03.build([tuple(x) for x in case['spec']]))
    if 'roundtrip' in case:
        c = harness.Ctx('C05', 'quick', 0)
        x = POS[:case['roundtrip']]
        o = io.BytesIO()
        mciipm.block_1014(io.BytesIO(x), o)
        got = unblock(o.getvalue())
        ok = got.startswith(x) and not got[len(x):].strip(b'\x40')
        return None if ok else ('roundtrip', 'unblock(block(x)) != x + fill')
    base = blocked_input(case['nblocks'] * 1012 - 17)
    if 'cut' in case:
        return check_unblock(base[:case['cut']])
    pos, val = case['pos'], case['val']
    return check_unblock(base[:pos] + bytes([val]) + base[pos + 1:])
