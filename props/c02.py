"""C02 - ISO8583 wire format conforms to the documented layout, in both directions; unrepresentable values refused."""
import copy
import itertools

from hypothesis import strategies as st

from vlib import harness, gen_iso, codecs_, refcodec
from vlib.strat import uniform
from vlib.harness import exc_sig
from cardutil import iso8583
from props import c01

LEVEL = 'exploration'
EXHAUSTIVE = True
TECHNIQUE = 'differential testing against an independent reference codec: dumps byte-for-byte vs reference encoder, loads key-for-key vs reference strict decoder on reference-encoded bytes; exhaustive single-bit and bit-pair subsets; refusal of over-long variable values'
RULE = ('Encode direction: generated messages (fixed text possibly shorter than the width, ints as int or decimal str, ""/None '
        'mixed in, PDS keys within one carrier) -> dumps(m) must equal the reference encoding byte for byte. Decode direction: '
        'bytes produced by the reference encoder (raw PDS carriers in any tag order, ICC TLVs, DE43 text that does/does not '
        'match) -> loads must return exactly the dictionary the reference strict decoder reads, derived entries included. '
        'Enumerated: every single bit and every pair of bits (quick: all singles + sampled pairs) of the packaged and a '
        'synthetic 126-bit configuration x {latin_1, cp500} x {binary, hex}, both directions. Refusal: LLVAR text of 100..120, '
        'LLLVAR text / ICC bytes of 1000..1010, PDS values >= 993 chars must make dumps raise. Non-trivial = >= 1 element; '
        'distinct by digest of (configuration, codec, rendering, message, direction).')
ASSUMPTIONS = ['over-wide FIXED values are outside the refusal clause (truncation is pinned by the repository tests) and not generated',
               'a PDS or ICC tag is never repeated within one message (which occurrence wins is documented nowhere)',
               'PAN elements hold >= 10 characters', 'the reference codec in vlib/refcodec.py is the trusted oracle',
               'any exception from dumps counts as a refusal']

PACKAGED = gen_iso.packaged_config()
FULL = gen_iso.full_config()


def enc_check(config, codec, hexbm, msg, default_cfg=False):
    try:
        want = refcodec.encode(config, codec, hexbm, {k: v for k, v in msg.items()})
    except refcodec.Unrepresentable as ex:
        raise harness.HarnessError(f'generator produced an unrepresentable message: {ex}')
    kw = dict(encoding=codecs_.spell(codec, len(want)), hex_bitmap=hexbm)      # any spelling of the codec name
    if codec == 'latin_1' and len(msg) % 2:
        del kw['encoding']          # the documented default
    if not default_cfg:
        kw['iso_config'] = gen_iso.same_object(config, len(want))
    try:
        got = iso8583.dumps(copy.deepcopy(msg), **kw)
    except Exception as ex:
        return exc_sig('dumps-raises', ex), f'dumps raised {ex!r} for {c01._short(msg)} under {codec}'
    if got != want:
        i = next((i for i in range(min(len(got), len(want))) if got[i] != want[i]), min(len(got), len(want)))
        hdr = 4 + (32 if hexbm else 16)
        where = 'mti' if i < 4 else ('bitmap' if i < hdr else 'body')
        return 'encode-differs:' + where, (f'dumps output differs from the reference layout at byte {i} ({where}); '
                                           f'got {got[max(0, i - 6):i + 10]!r} want {want[max(0, i - 6):i + 10]!r}; '
                                           f'message {c01._short(msg)} codec={codec} hex={hexbm}')
    # the bytes are a function of the message: the same message encoded again (a fresh, equal dict) gives the same bytes
    try:
        again = iso8583.dumps(copy.deepcopy(msg), **kw)
    except Exception as ex:
        return exc_sig('dumps-raises:on-repeat', ex), f'dumps raised {ex!r} when the same message was encoded a second time; {c01._short(msg)}'
    if again != got:
        return 'encode-differs:on-repeat', f'dumps gives different bytes for the same message the second time; message {c01._short(msg)} codec={codec} hex={hexbm}'
    return None


def dec_check(config, codec, hexbm, data, default_cfg=False):
    ref = refcodec.decode(config, codec, hexbm, data, strict=True)
    if not ref.ok:
        raise harness.HarnessError(f'reference decoder rejects reference-encoded bytes: {ref.reason}')
    kw = dict(encoding=codecs_.spell(codec, len(data)), hex_bitmap=hexbm)      # any spelling of the codec name
    if codec == 'latin_1' and len(data) % 2:
        del kw['encoding']          # the documented default
    if not default_cfg:
        kw['iso_config'] = gen_iso.same_object(config, len(data))
    try:
        got = iso8583.loads(data, **kw)
    except Exception as ex:
        return exc_sig('loads-raises', ex), f'loads raised {ex!r} on well-formed bytes {data[:80]!r}... codec={codec} hex={hexbm}'
    why = refcodec.compare(ref.values, got, set())
    if why:
        return 'decode-differs:' + why.split(':')[0].split(' ')[0], f'loads differs from the independent reading: {why}; bytes {data[:120]!r} codec={codec} hex={hexbm}'
    try:
        again = iso8583.loads(bytes(bytearray(data)), **kw)       # an equal but distinct bytes object
    except Exception as ex:
        return exc_sig('loads-raises:on-repeat', ex), f'loads raised {ex!r} when the same bytes were decoded a second time'
    why = refcodec.compare(ref.values, again, set())
    if why:
        return 'decode-differs:on-repeat', f'loads differs from the independent reading when the same bytes are decoded a second time: {why}'
    return None


# ----------------------------------------------------------------------------------------- generators

@st.composite
def raw_carriers(draw, config, codec, msg):
    """fill PDS carriers of msg with raw sub-element strings in arbitrary tag order (distinct tags message-wide)"""
    carriers = refcodec.pds_carrier_bits(config)
    if not carriers:
        return msg
    tags = draw(st.lists(uniform(0, 9999), min_size=0, max_size=10, unique=True))
    use = draw(st.lists(st.sampled_from(carriers), min_size=0, max_size=len(carriers), unique=True))
    if not use or not tags:
        return msg
    buckets = {b: '' for b in use}
    for t in tags:
        b = draw(st.sampled_from(use))
        n = draw(st.one_of(st.sampled_from([0, 1, 7, 40]), uniform(0, 80)))
        v = draw(gen_iso.tiled_text(codec, n))
        item = '%04d%03d%s' % (t, len(v), v)
        if len(buckets[b]) + len(item) <= 999:
            buckets[b] += item
    out = dict(msg)
    for b, s in buckets.items():
        if s:
            out['DE%d' % b] = s
    return out


@st.composite
def enc_cases(draw, tier, generated):
    codec = draw(gen_iso.codec_strategy(tier))
    hexbm = draw(st.booleans())
    config = draw(gen_iso.configs()) if generated else PACKAGED
    # PDS sets stay small here (one carrier): how a larger set is divided among the carriers is C12's subject and admits
    # more than one answer, so an exact comparison of bytes would demand more than this statement says
    msg = draw(gen_iso.messages(config, codec, exact=False, pds_mode='keys', typed_as_str=True))
    # absent markers: must not set a bit
    unused = [b for b in config if 'DE' + b not in msg and config[b].get('field_processor') != 'PDS']
    for b in draw(st.lists(st.sampled_from(unused), max_size=3, unique=True)) if unused else []:
        msg['DE' + b] = draw(st.sampled_from(['', None, b'']))       # an empty binary value is as empty as an empty text
    return config, codec, hexbm, msg, generated


@st.composite
def dec_cases(draw, tier, generated):
    codec = draw(gen_iso.codec_strategy(tier))
    hexbm = draw(st.booleans())
    config = draw(gen_iso.configs()) if generated else PACKAGED
    msg = draw(gen_iso.messages(config, codec, exact=False, pds_mode='none'))
    msg = draw(raw_carriers(config, codec, msg))
    return config, codec, hexbm, msg, generated


def hyp_encode(ctx, n, generated):
    def body(v):
        config, codec, hexbm, msg, gen = v
        nel = sum(1 for k, x in msg.items() if k.startswith('DE') and refcodec.present(x)) + sum(1 for k in msg if k.startswith('PDS'))
        ctx.case(key=harness.digest(('enc', config if gen else 0, codec, hexbm, msg)), nontrivial=nel >= 1,
                 labels=['enc'] + c01.labels_for(config, codec, hexbm, {k: x for k, x in msg.items() if refcodec.present(x)}, gen)
                 + (['has-absent-marker'] if any(not refcodec.present(x) for x in msg.values()) else []))
        if len(ctx.samples) < 2:
            ctx.sample({'direction': 'encode', 'config': gen_iso.describe(config) if gen else 'packaged', 'codec': codec, 'hex_bitmap': hexbm, 'message': msg})
        res = enc_check(config, codec, hexbm, msg, default_cfg=not gen)
        if res:
            ctx.fail(res[0], {'dir': 'enc', 'config': config if gen else None, 'codec': codec, 'hex': hexbm, 'msg': msg}, res[1])
    harness.drive(ctx, enc_cases(ctx.tier, generated), body, n, salt='enc-gen' if generated else 'enc-pkg')


def hyp_decode(ctx, n, generated):
    def body(v):
        config, codec, hexbm, msg, gen = v
        data = refcodec.encode(config, codec, hexbm, msg)
        nel = sum(1 for k in msg if k.startswith('DE'))
        ctx.case(key=harness.digest(('dec', config if gen else 0, codec, hexbm, data)), nontrivial=nel >= 1,
                 labels=['dec'] + c01.labels_for(config, codec, hexbm, msg, gen))
        if len(ctx.samples) < 4:
            ctx.sample({'direction': 'decode', 'config': gen_iso.describe(config) if gen else 'packaged', 'codec': codec, 'hex_bitmap': hexbm, 'bytes': data[:200]})
        res = dec_check(config, codec, hexbm, data, default_cfg=not gen)
        if res:
            ctx.fail(res[0], {'dir': 'dec', 'config': config if gen else None, 'codec': codec, 'hex': hexbm, 'data': data}, res[1])
    harness.drive(ctx, dec_cases(ctx.tier, generated), body, n, salt='dec-gen' if generated else 'dec-pkg')


# ----------------------------------------------------------------------------------------- bit subsets

def canon_value(cfg, bit):
    import datetime
    import decimal
    pt = cfg.get('field_python_type')
    if pt in ('int', 'long'):
        return bit % (10 ** min(cfg['field_length'] or 2, 3))
    if pt == 'decimal':
        return decimal.Decimal('1.5')
    if pt == 'datetime':
        return gen_iso.project_datetime(datetime.datetime(2001 + bit % 60, 1 + bit % 12, 1 + bit % 28, bit % 24, bit % 60, bit % 60),
                                        cfg.get('field_date_format', '%y%m%d'))
    proc = cfg.get('field_processor')
    if proc == 'ICC':
        return b'\x9f\x26\x02\xaa' + bytes([bit]) + b'\x82\x01\x80'
    if proc == 'PDS':
        return '%04d003v%02d' % (bit, bit % 100)
    if proc in ('PAN', 'PAN-PREFIX'):
        return '54' + '%014d' % bit
    if cfg['field_type'] == 'FIXED':
        return ('F%d' % bit + 'x' * 40)[:cfg['field_length']]
    return 'V%d' % bit


def sweep_subsets(ctx, which, pairs_from, pairs_to, sample_pairs):
    config = PACKAGED if which == 'packaged' else FULL
    bits = sorted(int(b) for b in config)
    subsets = []
    if pairs_from == 0:
        subsets += [(b,) for b in bits]
    allpairs = list(itertools.combinations(bits, 2))
    sel = allpairs[pairs_from:pairs_to]
    if sample_pairs:
        sel = sel[::max(1, len(sel) // sample_pairs)]
    subsets += sel
    n = 0
    for sub in subsets:
        msg = {'MTI': '1644'}
        for b in sub:
            msg['DE%d' % b] = canon_value(config[str(b)], b)
        for codec in ('latin_1', 'cp500'):
            for hexbm in (False, True):
                n += 2
                res = enc_check(config, codec, hexbm, msg, default_cfg=which == 'packaged')
                if res:
                    ctx.report(res[0], {'dir': 'enc', 'config': None if which == 'packaged' else 'FULL', 'codec': codec, 'hex': hexbm, 'msg': msg}, res[1])
                data = refcodec.encode(config, codec, hexbm, msg)
                res = dec_check(config, codec, hexbm, data, default_cfg=which == 'packaged')
                if res:
                    ctx.report(res[0], {'dir': 'dec', 'config': None if which == 'packaged' else 'FULL', 'codec': codec, 'hex': hexbm, 'data': data}, res[1])
    ctx.bulk(n, nontrivial_distinct=n, label='subsets:' + which)
    what = 'every single bit' + (' and every pair of bits' if not sample_pairs else ' and sampled pairs of bits')
    ctx.enumerated(f'{what} of the {which} configuration x {{latin_1, cp500}} x {{binary, hex}}, both directions')


# ----------------------------------------------------------------------------------------- refusal

def refusal_check(config, codec, hexbm, msg, what):
    try:
        out = iso8583.dumps(copy.deepcopy(msg), encoding=codec, iso_config=config, hex_bitmap=hexbm)
    except Exception:
        return None
    return 'emitted-unrepresentable:' + what, (f'dumps returned {len(out)} bytes for a value the layout cannot represent '
                                               f'({what}); message {c01._short(msg)}; output starts {out[:60]!r}')


def refusal(ctx):
    n = 0
    cfg = {'2': {'field_type': 'LLVAR', 'field_length': 0}, '54': {'field_type': 'LLLVAR', 'field_length': 0},
           '55': {'field_type': 'LLLVAR', 'field_length': 255, 'field_processor': 'ICC'},
           '56': {'field_type': 'LLVAR', 'field_length': 255, 'field_processor': 'ICC'},
           '48': {'field_type': 'LLLVAR', 'field_length': 0, 'field_processor': 'PDS'},
           '62': {'field_type': 'LLLVAR', 'field_length': 0, 'field_processor': 'PDS'},
           '3': {'field_type': 'FIXED', 'field_length': 6}}
    cases = []
    for ln in range(100, 121):
        cases.append(('llvar-text', {'MTI': '1144', 'DE2': '4' * ln}))
        cases.append(('llvar-text', {'MTI': '1144', 'DE3': '123456', 'DE2': 'ab' * (ln // 2) + 'c' * (ln % 2)}))
        cases.append(('llvar-binary', {'MTI': '1144', 'DE56': b'\x82' + bytes([ln - 2]) + b'\x01' * (ln - 2)}))
    for ln in list(range(1000, 1011)) + [1500, 9999, 10000]:
        cases.append(('lllvar-text', {'MTI': '1144', 'DE54': 'x' * ln}))
        cases.append(('lllvar-binary', {'MTI': '1144', 'DE55': b'\x01' * ln}))
        cases.append(('raw-carrier', {'MTI': '1144', 'DE48': '0001' + '%03d' % 0 + 'y' * (ln - 7)}))
    for ln in list(range(993, 1003)) + [1200]:
        cases.append(('pds-value', {'MTI': '1144', 'PDS0001': 'z' * ln}))
        cases.append(('pds-value', {'MTI': '1144', 'PDS0001': 'a', 'PDS0002': 'z' * ln}))
    for what, msg in cases:
        for codec in ('latin_1', 'cp500'):
            for hexbm in (False, True):
                n += 1
                res = refusal_check(cfg, codec, hexbm, msg, what)
                if res:
                    ctx.report(res[0], {'dir': 'refuse', 'config': cfg, 'codec': codec, 'hex': hexbm, 'msg': msg, 'what': what}, res[1])
    ctx.bulk(n, nontrivial_distinct=n, label='refusal')
    ctx.enumerated('over-long variable values: LLVAR text/binary 100..120, LLLVAR text/binary/raw carrier 1000..1010 (+1500, 9999, 10000), PDS values 993..1002')
    ctx.sample({'direction': 'refusal', 'message': {'MTI': '1144', 'DE2': '4 x 100'}, 'expected': 'dumps raises'})
    # boundary on the accept side: 99 / 999 / 992 must still be emitted exactly
    for msg in ({'MTI': '1144', 'DE2': '4' * 99}, {'MTI': '1144', 'DE54': 'x' * 999}, {'MTI': '1144', 'PDS0001': 'z' * 992},
                {'MTI': '1144', 'DE55': b'\x82\xff' + b'\x07' * 255 + b'\x83\xff' + b'\x08' * 255}):
        res = enc_check(cfg, 'latin_1', False, msg)
        ctx.bulk(1, 1, label='refusal-boundary-accept')
        if res:
            ctx.report(res[0], {'dir': 'enc', 'config': cfg, 'codec': 'latin_1', 'hex': False, 'msg': msg}, res[1])


def tasks(tier, seed):
    full = tier == 'thorough'
    t = [('refusal', {})]
    npk = 51 * 50 // 2
    nfull = 126 * 125 // 2
    if full:
        t.append(('sweep_subsets', dict(which='packaged', pairs_from=0, pairs_to=npk, sample_pairs=0)))
        for lo in range(0, nfull, 800):
            t.append(('sweep_subsets', dict(which='full', pairs_from=lo, pairs_to=min(lo + 800, nfull), sample_pairs=0)))
    else:
        t.append(('sweep_subsets', dict(which='packaged', pairs_from=0, pairs_to=npk, sample_pairs=250)))
        t.append(('sweep_subsets', dict(which='full', pairs_from=0, pairs_to=nfull, sample_pairs=250)))
    k = 4 if not full else 8
    for i in range(k):
        t.append(('hyp_encode', dict(n=200 if not full else 2000, generated=False)))
        t.append(('hyp_encode', dict(n=150 if not full else 1500, generated=True)))
        t.append(('hyp_decode', dict(n=200 if not full else 2000, generated=False)))
        t.append(('hyp_decode', dict(n=150 if not full else 1500, generated=True)))
    return t


def replay(case):
    config = case['config']
    default = config is None
    if config is None:
        config = PACKAGED
    elif config == 'FULL':
        config = FULL
    if case['dir'] == 'enc':
        return enc_check(config, case['codec'], case['hex'], case['msg'], default_cfg=default)
    if case['dir'] == 'dec':
        return dec_check(config, case['codec'], case['hex'], case['data'], default_cfg=default)
    return refusal_check(config, case['codec'], case['hex'], case['msg'], case['what'])
