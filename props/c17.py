"""C17 - File inspection recognises writer output: validity, encoding family, blocking."""
import io
import tempfile
import zlib

from hypothesis import strategies as st

from vlib import harness, gen_iso, codecs_, refcodec, refvbs
from vlib.harness import exc_sig
from vlib.strat import uniform
from cardutil import mciipm
from cardutil import config as cfgmod
from props import c06, c09

LEVEL = 'exploration'
EXHAUSTIVE = True
TECHNIQUE = 'enumeration of block counts x encodings x blocking over IpmWriter-produced files + Hypothesis message variety; boundary enumeration of the invalid classes (every length 0..24, max/max+1 first length, each single bitmap bit)'
RULE = ('Files are produced by IpmWriter over the packaged configuration in 4 ASCII-family and 4 EBCDIC-family encodings, blocked '
        'and unblocked, grown record by record to exactly b payload blocks for every b in 1..10 and 20 (each enumerated), with '
        'Hypothesis-drawn messages (first record up to 6000 bytes). Oracle: isValidIPM true; encoding == latin1 / cp037 by family; '
        'isBlocked true for every blocked file, false for an unblocked file unless its bytes 1012-1013 are both 0x40 (then '
        'don\'t-care). Invalid classes: every truncation 0..23 bytes invalid with a non-empty reason and 24 valid; first length max '
        'valid, max+1 and 2^32-1 invalid (also with MAX_VBS_RECORD_LENGTH patched to 100); each single bit 2..128 invalid with a '
        'reason iff it has no configuration. Non-trivial = blocked with >= 3 blocks, or a boundary case; distinct by digest.')
ASSUMPTIONS = ['files come from the library\'s own writer with the packaged configuration (the inspector checks bitmaps against it)',
               'an unblocked file whose bytes 1012-1013 are both 0x40 is a don\'t-care for isBlocked']

PACKAGED = gen_iso.packaged_config()
ASCII_FAMILY = ['latin_1', 'ascii', 'cp1252', 'iso8859_15']
EBCDIC_FAMILY = ['cp500', 'cp037', 'cp1140', 'cp273']


class SourceDependent(Exception):
    pass


def inspect(data):
    info = mciipm.ipm_info(io.BytesIO(data))
    if zlib.crc32(data) % 3 == 0:
        # the same bytes arriving over a read-only stream without seek/tell (a pipe, standard input) and from a real file
        other = mciipm.ipm_info(c09.Pipe(data))
        if other != info:
            raise SourceDependent(f'read-only stream: {other!r}; in-memory file: {info!r}')
        with tempfile.TemporaryFile(prefix='cardutil-verif-c17-') as f:
            f.write(data)
            f.seek(0)
            other = mciipm.ipm_info(f)
        if other != info:
            raise SourceDependent(f'operating-system file: {other!r}; in-memory file: {info!r}')
    return info


def write_file(msgs, codec, blocked):
    import copy
    f = io.BytesIO()
    with mciipm.IpmWriter(f, encoding=codec, blocked=blocked) as w:
        for m in msgs:
            w.write(copy.deepcopy(m))
    return f.getvalue()


def expect_valid(data, sig, desc):
    try:
        info = inspect(data)
    except Exception as ex:
        return exc_sig('ipm_info-raises', ex), f'ipm_info raised {ex!r} on {desc}'
    if info.get('isValidIPM') is not True:
        return sig, f'{desc}: reported invalid ({info.get("reason")!r})'
    return None


def check_valid(data, codec, blocked, desc):
    try:
        info = inspect(data)
    except Exception as ex:
        return exc_sig('ipm_info-raises', ex), f'ipm_info raised {ex!r} on {desc}'
    if info.get('isValidIPM') is not True:
        return 'valid-file-reported-invalid', f'{desc}: reported invalid ({info.get("reason")!r})'
    want_enc = 'latin1' if codecs_.family(codec) == 'ascii' else 'cp037'
    if info.get('encoding') != want_enc:
        # the statement asks for the matching *family*: any codec name of the right family is accepted
        try:
            import codecs
            fam = codecs_.family(codecs.lookup(info.get('encoding')).name)
        except (LookupError, TypeError):
            fam = None
        if fam != codecs_.family(codec):
            return 'encoding-family', f'{desc}: encoding reported {info.get("encoding")!r}, expected {want_enc!r} (or another {codecs_.family(codec)}-family codec)'
    if blocked:
        if info.get('isBlocked') is not True:
            return 'blocked-file-reported-unblocked', f'{desc} ({len(data)} bytes = {len(data) // 1014} blocks): isBlocked == {info.get("isBlocked")!r}'
    else:
        if data[1012:1014] != b'\x40\x40' and info.get('isBlocked') is not False:
            return 'unblocked-file-reported-blocked', f'{desc} ({len(data)} bytes): isBlocked == {info.get("isBlocked")!r}'
    return None


def small_message(i, size):
    m = {'MTI': '%04d' % (1000 + i * 13 % 9000), 'DE2': '5' * (12 + i % 8), 'DE3': '%06d' % i}
    if size > 0:
        m['DE72'] = ('record %d ' % i * 120)[:size]
    return m


def grow_to_blocks(b, first, variant):
    """messages whose VBS stream needs exactly b payload blocks"""
    msgs = [first]
    lo, hi = (b - 1) * 1012, b * 1012

    def stream_len(ms):
        return sum(4 + len(refcodec.encode(PACKAGED, 'latin_1', False, m)) for m in ms) + 4
    if stream_len(msgs) > hi:
        return None
    i = 1
    while stream_len(msgs) <= lo:
        remaining = hi - stream_len(msgs)
        size = min(600 + (variant * 37 + i * 11) % 200, max(0, remaining - 60))
        msgs.append(small_message(i + variant, size))
        i += 1
    return msgs if lo < stream_len(msgs) <= hi else None


def sweep_blocks(ctx, codec, first_sizes):
    n = nt = 0
    for b in list(range(1, 11)) + [20]:
        for variant, fs in enumerate(first_sizes):
            first = small_message(variant, 0)
            if fs:
                first['DE72'] = 'F' * min(fs, 999)
                if fs > 999:
                    first['DE54'] = 'G' * min(fs - 999, 999)
                    first['DE127'] = 'H' * min(max(0, fs - 1998), 999)
                    first['DE111'] = 'I' * min(max(1, fs - 2997), 999)
                    first['DE63'] = 'J' * min(max(1, fs - 3996), 999)
                    first['PDS0001'] = 'K' * min(max(1, fs - 4995), 900)
            msgs = grow_to_blocks(b, first, variant)
            if msgs is None:
                ctx.labels['block-target-unreachable'] += 1
                continue
            for blocked in (True, False):
                data = write_file(msgs, codec, blocked)
                if blocked and len(data) != b * 1014:
                    # the writer produced another size than the reference predicts (that is C03/C06's business): the file is
                    # still writer output and is judged as it is
                    ctx.labels['grown-file-size-unexpected'] += 1
                n += 1
                nt += blocked and b >= 3
                res = check_valid(data, codec, blocked, f'writer-produced {"1014" if blocked else "VBS"} file, {codec}, {len(msgs)} records')
                ctx.labels[f'blocks={b}' if blocked else 'unblocked'] += 1
                if res:
                    ctx.report(res[0], {'kind': 'grown', 'b': b, 'variant': variant, 'fs': fs, 'codec': codec, 'blocked': blocked}, res[1])
    ctx.bulk(n, nontrivial_distinct=nt, label='family:' + codecs_.family(codec))
    ctx.enumerated(f'writer output grown to exactly b blocks for every b in 1..10 and 20 x {len(first_sizes)} first-record sizes x blocked/unblocked, {codec}')
    if codec == 'cp500':
        ctx.sample({'codec': codec, 'blocks': 3, 'blocked': True, 'file_bytes': 3042})


def message_of_length(length, codec):
    """a message whose encoded record is exactly `length` bytes (60 <= length <= 4000)"""
    for pan in range(19, 9, -1):
        m = {'MTI': '1240', 'DE2': '5' * pan}
        rest = length - len(refcodec.encode(PACKAGED, codec, False, m))
        for k in ('DE54', 'DE72', 'DE111', 'DE127'):
            if rest < 4:
                break
            take = min(rest - 3, 999)
            if 0 < rest - 3 - take < 4:
                take -= 4          # leave room for the next element's prefix and one character
            m[k] = 'F' * take
            rest -= take + 3
        if rest == 0 and len(refcodec.encode(PACKAGED, codec, False, m)) == length:
            return m
    raise harness.HarnessError(f'no message of {length} bytes')


def sweep_first_record(ctx, codec):
    """two-record files whose first record ends at every position around the ends of the first three blocks (so that
    the second length prefix sits before, across and after a block trailer), blocked and unblocked"""
    n = 0
    for base in (1012, 2024, 3036):
        for length in range(base - 14, base + 9):
            msgs = [message_of_length(length, codec), small_message(2, 50)]
            for blocked in (True, False):
                n += 1
                data = write_file(msgs, codec, blocked)
                res = check_valid(data, codec, blocked, f'writer-produced {"1014" if blocked else "VBS"} file, {codec}, first record of {length} bytes')
                if res:
                    ctx.report(res[0] + ':first-record-at-block-edge', {'kind': 'first-record', 'length': length, 'codec': codec, 'blocked': blocked}, res[1])
    ctx.bulk(n, nontrivial_distinct=n, label='first-record-at-block-edge')
    ctx.enumerated(f'two-record files, first record of every length within -14..+8 of 1012 / 2024 / 3036, blocked and unblocked, {codec}')


def crafted_offsets(ctx, codec):
    """Unblocked files whose bytes at 1012/1013 and 2026/2027 (where block trailers would sit) are steered one by one to the
    pad value 0x40 or to something else, by choosing the characters of long text elements that cover those offsets."""
    pad = bytes([0x40]).decode(codec)
    other = 'A'
    n = 0
    for nrec_big in (1, 2, 3):
        for pattern in range(16):
            want = {1012: pattern & 1, 1013: pattern & 2, 2026: pattern & 4, 2027: pattern & 8}
            msgs = []
            for i in range(nrec_big):
                msgs.append({'MTI': '1240', 'DE2': '5' * 16, 'DE54': other * 999, 'DE72': other * 999, 'DE111': other * (700 + 37 * i)})
            msgs.append(small_message(3, 40))
            # locate the offsets in the plain VBS stream and steer the characters that land there
            pos = 0
            for m in msgs:
                rec = refcodec.encode(PACKAGED, codec, False, m)
                res = refcodec.decode(PACKAGED, codec, False, rec, strict=True)
                for kind, bit, s, e in res.frames:
                    if kind == 'value' and PACKAGED[str(bit)]['field_type'] != 'FIXED' and isinstance(m.get('DE%d' % bit), str):
                        for off, flag in want.items():
                            rel = off - (pos + 4 + s)
                            if 0 <= rel < e - s:
                                v = m['DE%d' % bit]
                                m['DE%d' % bit] = v[:rel] + (pad if flag else other) + v[rel + 1:]
                pos += 4 + len(rec)
            data = write_file(msgs, codec, False)
            hit = {off: data[off] == 0x40 for off in want if off < len(data)}
            n += 1
            ctx.labels['crafted:1012-1013=' + ('pad' if hit.get(1012) else 'x') + ('pad' if hit.get(1013) else 'x')] += 1
            res = check_valid(data, codec, False, f'writer-produced VBS file ({codec}) with bytes 1012/1013/2026/2027 steered to {hit}')
            if res:
                ctx.report(res[0], {'kind': 'crafted', 'codec': codec, 'nrec_big': nrec_big, 'pattern': pattern}, res[1])
            data = write_file(msgs, codec, True)
            res = check_valid(data, codec, True, f'writer-produced 1014 file ({codec}), crafted content')
            n += 1
            if res:
                ctx.report(res[0], {'kind': 'crafted', 'codec': codec, 'nrec_big': nrec_big, 'pattern': pattern, 'blocked': True}, res[1])
    ctx.bulk(n, nontrivial_distinct=n, label='crafted-offsets')
    ctx.enumerated(f'unblocked writer output ({codec}) with each of the bytes 1012, 1013, 2026, 2027 steered to 0x40 / not 0x40 (all 16 combinations x 3 file shapes)')


def hyp_files(ctx, n):
    @st.composite
    def cases(draw):
        codec = draw(st.sampled_from(ASCII_FAMILY + EBCDIC_FAMILY))
        msgs = [draw(c06.bounded_message(PACKAGED, codec)) for _ in range(draw(uniform(1, 8)))]
        reps = draw(st.sampled_from([1, 1, 2, 5, 12]))
        return codec, msgs * reps, draw(st.booleans())

    def body(v):
        codec, msgs, blocked = v
        ctx.labels['generated'] += 1
        try:
            data = write_file(msgs, codec, blocked)
        except Exception:  # noqa - the statement is about files the writer produced; a writer that refuses is C01/C06's business
            ctx.labels['writer-raised'] += 1
            return
        ctx.case(key=harness.digest((codec, data, blocked)), nontrivial=blocked and len(data) >= 3 * 1014,
                 labels=['hyp', 'family:' + codecs_.family(codec), (f'blocks>=3' if len(data) >= 3042 else 'blocks<3') if blocked else 'unblocked'])
        if len(ctx.samples) < 4:
            ctx.sample({'codec': codec, 'blocked': blocked, 'records': len(msgs), 'file_bytes': len(data), 'first_message': msgs[0]})
        res = check_valid(data, codec, blocked, f'writer-produced {"1014" if blocked else "VBS"} file, {codec}, {len(msgs)} records')
        if res:
            ctx.fail(res[0], {'kind': 'msgs', 'codec': codec, 'msgs': msgs, 'blocked': blocked}, res[1])
    harness.drive(ctx, cases(), body, n, salt='files')
    ctx.floor('hyp', 0.5, 'generated')


def check_invalid(data, desc):
    try:
        info = inspect(data)
    except Exception as ex:
        return exc_sig('ipm_info-raises', ex), f'ipm_info raised {ex!r} on {desc}'
    if info.get('isValidIPM') is not False:
        return 'invalid-input-reported-valid', f'{desc}: reported valid'
    if not info.get('reason') or not isinstance(info.get('reason'), str):
        return 'invalid-without-reason', f'{desc}: invalid but reason is {info.get("reason")!r}'
    return None


def invalid_classes(ctx):
    n = 0
    base = write_file([small_message(1, 300), small_message(2, 50)], 'latin_1', False)
    based = {'latin_1': base, 'cp500': write_file([small_message(1, 300)], 'cp500', True)}
    for name, data in based.items():
        for cut in range(0, 24):
            n += 1
            res = check_invalid(data[:cut], f'{name} file truncated to {cut} bytes')
            if res:
                ctx.report(res[0], {'kind': 'cut', 'file': name, 'cut': cut}, res[1])
    # exactly 24 bytes: a record made of MTI + bitmap only
    minimal = (20).to_bytes(4, 'big') + b'1644' + refcodec.bitmap_bytes([])
    for data, desc in ((minimal, '24-byte file (length + MTI + bitmap)'), (base[:24], 'writer output cut to 24 bytes')):
        n += 1
        try:
            info = inspect(data)
            if info.get('isValidIPM') is not True:
                ctx.report('24-bytes-reported-invalid', {'kind': 'raw', 'data': data}, f'{desc}: reported invalid ({info.get("reason")!r})')
        except Exception as ex:
            ctx.report(exc_sig('ipm_info-raises', ex), {'kind': 'raw', 'data': data}, f'ipm_info raised {ex!r} on {desc}')
    # first length boundaries, default and patched maximum
    saved = cfgmod.config.get('MAX_VBS_RECORD_LENGTH')
    try:
        for mx in (saved, 100, 20000):
            cfgmod.config['MAX_VBS_RECORD_LENGTH'] = mx
            body = b'1644' + refcodec.bitmap_bytes([2]) + b'16' + b'5' * 16 + b'x' * 40
            for ln, valid in ((mx, True), (mx - 1, True), (mx + 1, False), (2 ** 32 - 1, False), (2 ** 31, False), (mx * 2 + 1, False)):
                data = ln.to_bytes(4, 'big') + body
                n += 1
                if valid:
                    res = expect_valid(data, 'max-length-reported-invalid', f'first length {ln} (maximum {mx})')
                    if res:
                        ctx.report(res[0], {'kind': 'firstlen', 'max': mx, 'ln': ln}, res[1])
                else:
                    res = check_invalid(data, f'first length {ln} with maximum {mx}')
                    if res:
                        ctx.report(res[0], {'kind': 'firstlen', 'max': mx, 'ln': ln}, res[1])
                    n += 1
                    res = check_invalid(refvbs.block(data), f'first length {ln} with maximum {mx}, inside a 1014 block')
                    if res:
                        ctx.report(res[0] + ':blocked', {'kind': 'firstlen', 'max': mx, 'ln': ln, 'blocked': True}, res[1])
    finally:
        cfgmod.config['MAX_VBS_RECORD_LENGTH'] = saved
    # each single bit
    for bit in range(2, 129):
        for bit1 in (1, 0):
            raw = (bit1 << 127) | (1 << (128 - bit))
            data = (60).to_bytes(4, 'big') + b'1644' + raw.to_bytes(16, 'big') + b'0' * 40
            n += 1
            configured = str(bit) in PACKAGED
            if configured:
                if not bit1:
                    continue   # what a bitmap with bit 1 clear and only configured elements is, no statement says
                res = expect_valid(data, 'configured-bit-reported-invalid', f'first bitmap uses configured element {bit}')
                if res:
                    ctx.report(res[0], {'kind': 'bit', 'bit': bit, 'bit1': bit1}, res[1])
            else:
                res = check_invalid(data, f'first bitmap uses unconfigured element {bit} (bit 1 {"set" if bit1 else "clear"})')
                if res:
                    ctx.report(res[0] + ':bit', {'kind': 'bit', 'bit': bit, 'bit1': bit1}, res[1])
                n += 1
                res = check_invalid(refvbs.block(data), f'first bitmap uses unconfigured element {bit} (bit 1 {"set" if bit1 else "clear"}), inside a 1014 block')
                if res:
                    ctx.report(res[0] + ':bit:blocked', {'kind': 'bit', 'bit': bit, 'bit1': bit1, 'blocked': True}, res[1])
    ctx.bulk(n, nontrivial_distinct=n, label='invalid-classes')
    ctx.enumerated('every truncation length 0..23 (invalid) and 24 (valid); first length max-1/max/max+1/2^31/2^32-1 under three maxima; each single bit 2..128; the length and bit classes also inside a 1014 block')
    ctx.sample({'invalid_class': 'first bitmap uses element 128 (no configuration)', 'expected': 'isValidIPM false with a reason'})


def tasks(tier, seed):
    full = tier == 'thorough'
    t = [('invalid_classes', {})]
    for codec in ASCII_FAMILY + EBCDIC_FAMILY:
        t.append(('sweep_blocks', dict(codec=codec, first_sizes=[0, 300, 1500, 2480, 2600, 5800] if not full else [0, 300, 900, 1500, 2480, 2492, 2493, 2500, 2600, 3000, 4100, 5800])))
    for codec in ('latin_1', 'cp500', 'cp037', 'ascii'):
        t.append(('crafted_offsets', dict(codec=codec)))
    for codec in ('latin_1', 'cp500'):
        t.append(('sweep_first_record', dict(codec=codec)))
    for i in range(4 if not full else 12):
        t.append(('hyp_files', dict(n=60 if not full else 500)))
    return t


def replay(case):
    k = case['kind']
    if k == 'grown':
        first = small_message(case['variant'], 0)
        fs = case['fs']
        if fs:
            first['DE72'] = 'F' * min(fs, 999)
            if fs > 999:
                first['DE54'] = 'G' * min(fs - 999, 999)
                first['DE127'] = 'H' * min(max(0, fs - 1998), 999)
                first['DE111'] = 'I' * min(max(1, fs - 2997), 999)
                first['DE63'] = 'J' * min(max(1, fs - 3996), 999)
                first['PDS0001'] = 'K' * min(max(1, fs - 4995), 900)
        msgs = grow_to_blocks(case['b'], first, case['variant'])
        data = write_file(msgs, case['codec'], case['blocked'])
        return check_valid(data, case['codec'], case['blocked'], 'replayed grown file')
    if k == 'first-record':
        data = write_file([message_of_length(case['length'], case['codec']), small_message(2, 50)], case['codec'], case['blocked'])
        res = check_valid(data, case['codec'], case['blocked'], 'replayed first-record file')
        return (res[0] + ':first-record-at-block-edge', res[1]) if res else None
    if k == 'crafted':
        c = harness.Ctx('C17', 'quick', 0)
        crafted_offsets(c, case['codec'])
        for sig, v in c.violations.items():
            if v['case'].get('pattern') == case['pattern'] and v['case'].get('nrec_big') == case['nrec_big']:
                return sig, v['message']
        return next(((sig, v['message']) for sig, v in c.violations.items()), None)
    if k == 'msgs':
        data = write_file(list(case['msgs']), case['codec'], case['blocked'])
        return check_valid(data, case['codec'], case['blocked'], 'replayed file')
    if k == 'cut':
        data = write_file([small_message(1, 300), small_message(2, 50)], 'latin_1', False) if case['file'] == 'latin_1' else write_file([small_message(1, 300)], 'cp500', True)
        return check_invalid(data[:case['cut']], 'replayed truncation')
    if k == 'raw':
        return expect_valid(case['data'], '24-bytes-reported-invalid', 'replayed 24-byte input')
    if k == 'firstlen':
        saved = cfgmod.config.get('MAX_VBS_RECORD_LENGTH')
        try:
            cfgmod.config['MAX_VBS_RECORD_LENGTH'] = case['max']
            body = b'1644' + refcodec.bitmap_bytes([2]) + b'16' + b'5' * 16 + b'x' * 40
            data = case['ln'].to_bytes(4, 'big') + body
            if case['ln'] <= case['max']:
                return expect_valid(data, 'max-length-reported-invalid', 'replayed first length')
            if case.get('blocked'):
                res = check_invalid(refvbs.block(data), 'replayed first length, inside a 1014 block')
                return (res[0] + ':blocked', res[1]) if res else None
            return check_invalid(data, 'replayed first length')
        finally:
            cfgmod.config['MAX_VBS_RECORD_LENGTH'] = saved
    if k == 'bit':
        bit = case['bit']
        raw = (case.get('bit1', 1) << 127) | (1 << (128 - bit))
        data = (60).to_bytes(4, 'big') + b'1644' + raw.to_bytes(16, 'big') + b'0' * 40
        if str(bit) in PACKAGED:
            return expect_valid(data, 'configured-bit-reported-invalid', f'configured element {bit}')
        if case.get('blocked'):
            res = check_invalid(refvbs.block(data), f'unconfigured element {bit}, inside a 1014 block')
            return (res[0] + ':bit:blocked', res[1]) if res else None
        res = check_invalid(data, f'unconfigured element {bit}')
        return (res[0] + ':bit', res[1]) if res else None
    raise harness.HarnessError('unknown replay kind')
