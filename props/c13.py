"""C13 - PIN blocks follow ISO 9564 formats 0 and 4 and return the PIN, for 4-12 digits."""
import binascii

from hypothesis import strategies as st

from vlib import harness, refcrypto
from vlib.harness import exc_sig
from vlib.strat import uniform
from cardutil import pinblock

LEVEL = 'exploration'
EXHAUSTIVE = True
TECHNIQUE = 'exhaustive (PIN length x PAN length) pairs and per-position digit sweep + Hypothesis; clear blocks against a nibble-by-nibble construction, ciphertexts against from-scratch 3DES/AES (FIPS known-answer checked); statistical freshness test of the 64-bit fill'
RULE = ('All 63 pairs of PIN length 4..12 x PAN length 13..19 and a sweep of every digit at every PIN/PAN position are enumerated '
        'every run; Hypothesis draws PINs, PANs, supplied fills (1, 2^63, 2^64-1, uniform) and keys (3DES 16/24 bytes, AES '
        '16/24/32 bytes). Oracle: format 0 = (0, L hex, PIN, F..) XOR (0000, 12 PAN digits before the check digit); format 4 = '
        '(4, L hex, PIN, A.. to 16 digits, 64 fill bits); from_bytes returns the PIN; to_enc_bytes equals the reference 3DES / AES '
        'ECB encryption of the clear block and from_enc_bytes returns the PIN; this includes the format-4 block under 3DES (a class composed from '
        'Iso4PinBlock and the 3DES mix-in, two DES blocks) and the mix-ins\' own encrypt/decrypt on 1..4 blocks of 16 bytes. Freshness: 200 format-4 blocks built without a '
        'supplied value have identical PIN fields, pairwise distinct fills whose OR is all ones and whose AND is zero. '
        'Non-trivial = PIN length > 4 or PAN length != 16; distinct by digest.')
ASSUMPTIONS = ['PINs and PANs are decimal digit strings', 'a supplied fill of 0 is treated as "none supplied" (not generated as supplied)',
               'reference ciphers in vlib/refcrypto.py are checked against FIPS known answers at start-up',
               'the freshness test has a false-alarm probability below 2^-49 on a correct implementation']

HEX = '0123456789abcdef'


def ref_iso0(pin, pan):
    p1 = '0' + HEX[len(pin)] + pin
    p1 = p1 + 'f' * (16 - len(p1))
    p2 = '0000' + pan[len(pan) - 13:len(pan) - 1]
    return bytes(int(a, 16) ^ int(b, 16) for a, b in zip(p1, p2))  # nibble values


def nibbles_to_bytes(nibs):
    return bytes((nibs[i] << 4) | nibs[i + 1] for i in range(0, len(nibs), 2))


def clear0(pin, pan):
    return nibbles_to_bytes(ref_iso0(pin, pan))


def clear4(pin, fill):
    p = '4' + HEX[len(pin)] + pin
    p = p + 'a' * (16 - len(p))
    return bytes.fromhex(p) + fill.to_bytes(8, 'big')


def check0(pin, pan, key=None):
    name = f'PIN len {len(pin)}, PAN len {len(pan)}'
    want = clear0(pin, pan)
    try:
        got = pinblock.Iso0PinBlock(pin=pin, card_number=pan).to_bytes()
    except Exception as ex:
        return exc_sig('iso0-to_bytes-raises', ex), f'Iso0PinBlock({pin!r}, {pan!r}).to_bytes() raised {ex!r}'
    if got != want:
        return 'iso0-block', f'format-0 block for PIN {pin!r} PAN {pan!r} is {got.hex()}, expected {want.hex()} ({name})'
    try:
        back = pinblock.Iso0PinBlock.from_bytes(want, card_number=pan).pin
    except Exception as ex:
        return exc_sig('iso0-from_bytes-raises', ex), f'Iso0PinBlock.from_bytes({want.hex()}, {pan!r}) raised {ex!r}'
    if back != pin:
        return 'iso0-pin-back', f'from_bytes of the format-0 block {want.hex()} (PAN {pan!r}) returns PIN {back!r}, expected {pin!r} ({name})'
    if key is not None:
        kb = bytes.fromhex(key)
        enc_want = refcrypto.tdes_ecb_encrypt(kb, want)
        cls = pinblock.Iso0TDESPinBlockWithVisaPVV
        try:
            obj = cls(pin=pin, card_number=pan)
            # one object, asked under another key first: each call answers for the key it names
            other = KEYS3[(KEYS3.index(key) + 1) % len(KEYS3)] if key in KEYS3 else KEYS3[0]
            enc_other = obj.to_enc_bytes(other)
            enc = obj.to_enc_bytes(key)
        except Exception as ex:
            return exc_sig('iso0-enc-raises', ex), f'to_enc_bytes raised {ex!r} ({name}, key {len(kb)} bytes)'
        if enc_other != refcrypto.tdes_ecb_encrypt(bytes.fromhex(other), want):
            return 'iso0-ciphertext', f'3DES ciphertext of the format-0 block under a second key is {enc_other.hex()}, reference {refcrypto.tdes_ecb_encrypt(bytes.fromhex(other), want).hex()} ({name})'
        if enc != enc_want:
            return 'iso0-ciphertext', f'3DES ciphertext of the format-0 block is {enc.hex()}, reference {enc_want.hex()} ({name}, key {len(kb)} bytes)'
        try:
            back = cls.from_enc_bytes(enc_pin_block=enc_want, key=key, card_number=pan).pin
        except Exception as ex:
            return exc_sig('iso0-dec-raises', ex), f'from_enc_bytes raised {ex!r} ({name})'
        if back != pin:
            return 'iso0-enc-pin-back', f'from_enc_bytes returns PIN {back!r}, expected {pin!r} ({name})'
    return None


def check4(pin, fill, key=None, key3=None):
    name = f'PIN len {len(pin)}, fill {fill:#x}'
    want = clear4(pin, fill)
    try:
        got = pinblock.Iso4PinBlock(pin=pin, random_value=fill).to_bytes()
    except Exception as ex:
        return exc_sig('iso4-to_bytes-raises', ex), f'Iso4PinBlock({pin!r}, random_value={fill:#x}).to_bytes() raised {ex!r}'
    if got != want:
        return 'iso4-block', f'format-4 block for PIN {pin!r} is {got.hex()}, expected {want.hex()} ({name})'
    try:
        back = pinblock.Iso4PinBlock.from_bytes(want).pin
    except Exception as ex:
        return exc_sig('iso4-from_bytes-raises', ex), f'Iso4PinBlock.from_bytes({want.hex()}) raised {ex!r}'
    if back != pin:
        return 'iso4-pin-back', f'from_bytes of the format-4 block {want.hex()} returns PIN {back!r}, expected {pin!r}'
    if key is not None:
        kb = bytes.fromhex(key)
        enc_want = refcrypto.aes_ecb_encrypt(kb, want)
        cls = pinblock.Iso4AESPinBlockWithVisaPVV
        try:
            enc = cls(pin=pin, random_value=fill).to_enc_bytes(key)
        except Exception as ex:
            return exc_sig('iso4-enc-raises', ex), f'to_enc_bytes raised {ex!r} ({name}, key {len(kb)} bytes)'
        if enc != enc_want:
            return 'iso4-ciphertext', f'AES ciphertext of the format-4 block is {enc.hex()}, reference {enc_want.hex()} ({name}, key {len(kb)} bytes)'
        try:
            back = cls.from_enc_bytes(enc_pin_block=enc_want, key=key).pin
        except Exception as ex:
            return exc_sig('iso4-dec-raises', ex), f'from_enc_bytes raised {ex!r} ({name})'
        if back != pin:
            return 'iso4-enc-pin-back', f'from_enc_bytes returns PIN {back!r}, expected {pin!r} ({name})'
        # the format-4 block under 3DES: a class composed from the documented mix-ins ("or create your own class
        # including required mix-ins"); the 16-byte clear block is two DES blocks, each encrypted on its own (ECB)
        key3 = key3 or KEYS3[len(pin) % len(KEYS3)]
        k3 = bytes.fromhex(key3)
        enc_want = refcrypto.tdes_ecb_encrypt(k3, want)
        try:
            enc = ISO4_TDES(pin=pin, random_value=fill).to_enc_bytes(key3)
        except Exception as ex:
            return exc_sig('iso4-tdes-enc-raises', ex), f'(Iso4PinBlock + TdesEncryptedPinBlockMixin).to_enc_bytes raised {ex!r} ({name})'
        if enc != enc_want:
            return 'iso4-tdes-ciphertext', (f'3DES ciphertext of the format-4 block (Iso4PinBlock + TdesEncryptedPinBlockMixin) is {enc.hex()}, '
                                            f'3DES-ECB reference {enc_want.hex()} ({name}, key {len(k3)} bytes)')
        try:
            back = ISO4_TDES.from_enc_bytes(enc_pin_block=enc_want, key=key3).pin
        except Exception as ex:
            return exc_sig('iso4-tdes-dec-raises', ex), f'(Iso4PinBlock + TdesEncryptedPinBlockMixin).from_enc_bytes raised {ex!r} ({name})'
        if back != pin:
            return 'iso4-tdes-enc-pin-back', f'(Iso4PinBlock + TdesEncryptedPinBlockMixin).from_enc_bytes returns PIN {back!r}, expected {pin!r} ({name})'
    return None


ISO4_TDES = type('Iso4TdesPinBlock', (pinblock.Iso4PinBlock, pinblock.TdesEncryptedPinBlockMixin), {})


def check_mixin_ecb(data, key3, keya):
    """the mix-ins' own encrypt / decrypt on 1..4 AES-sized blocks: ECB, every cipher block on its own"""
    for name, mixin, key, ref_enc in (('tdes', pinblock.TdesEncryptedPinBlockMixin, key3, refcrypto.tdes_ecb_encrypt),
                                      ('aes', pinblock.AESEncryptedPinBlockMixin, keya, refcrypto.aes_ecb_encrypt)):
        kb = bytes.fromhex(key)
        want = ref_enc(kb, data)
        try:
            enc = mixin.encrypt(key, data)
            dec = mixin.decrypt(key, want)
        except Exception as ex:
            return exc_sig(f'{name}-mixin-raises', ex), f'{mixin.__name__}.encrypt/decrypt raised {ex!r} on {len(data)} bytes'
        if enc != want:
            return f'{name}-mixin-encrypt-not-ecb', f'{mixin.__name__}.encrypt of {data.hex()} is {enc.hex()}, ECB reference {want.hex()} (key {len(kb)} bytes)'
        if dec != data:
            return f'{name}-mixin-decrypt-not-ecb', f'{mixin.__name__}.decrypt of the ECB reference ciphertext {want.hex()} is {dec.hex()}, expected {data.hex()} (key {len(kb)} bytes)'
    return None


def check_fresh(pin, count=200):
    fills = []
    for _ in range(count):
        try:
            b = pinblock.Iso4PinBlock(pin=pin).to_bytes()
        except Exception as ex:
            return exc_sig('iso4-fresh-raises', ex), f'Iso4PinBlock({pin!r}).to_bytes() raised {ex!r}'
        if len(b) != 16 or b[:8] != clear4(pin, 0)[:8]:
            return 'iso4-fresh-pinfield', f'block without supplied fill has PIN field {b[:8].hex()}, expected {clear4(pin, 0)[:8].hex()}'
        fills.append(int.from_bytes(b[8:], 'big'))
    if len(set(fills)) != len(fills):
        return 'iso4-fill-repeats', f'{count} blocks built without a supplied fill contain a repeated 64-bit fill'
    orv = 0
    andv = (1 << 64) - 1
    for f in fills:
        orv |= f
        andv &= f
    if orv != (1 << 64) - 1 or andv != 0:
        return 'iso4-fill-not-64-random-bits', (f'over {count} blocks the fill bits OR to {orv:#018x} and AND to {andv:#018x}: '
                                                f'not every one of the 64 bits varies')
    return None


KEYS3 = ['0123456789abcdeffedcba9876543210', '00' * 16, 'ff' * 16, '0123456789ABCDEF23456789ABCDEF01456789ABCDEF0123',
         '1c' * 8 + '2d' * 8 + '3e' * 8]
KEYSA = ['000102030405060708090a0b0c0d0e0f', '00' * 16, 'ff' * 24, '2b7e151628aed2a6abf7158809cf4f3c',
         '603deb1015ca71be2b73aef0857d77811f352c073b6108d72d9810a30914dff4', '8e73b0f7da0e6452c810f32b809079e562f8ead2522c6b7b']


def make_pin(n, seedv):
    return ''.join(str((seedv * 7 + i * 3) % 10) for i in range(n))


def make_pan(n, seedv):
    return ''.join(str((seedv * 5 + i * 7 + 1) % 10) for i in range(n))


def sweep_pairs(ctx):
    refcrypto.selftest()
    n = nt = 0
    for pl in range(4, 13):
        for al in range(13, 20):
            pin, pan = make_pin(pl, pl + al), make_pan(al, pl * al)
            for res, case in ((check0(pin, pan, KEYS3[(pl + al) % len(KEYS3)]), {'fmt': 0, 'pin': pin, 'pan': pan, 'key': KEYS3[(pl + al) % len(KEYS3)]}),
                              (check4(pin, 0x0123456789abcdef + al, KEYSA[(pl + al) % len(KEYSA)]),
                               {'fmt': 4, 'pin': pin, 'fill': 0x0123456789abcdef + al, 'key': KEYSA[(pl + al) % len(KEYSA)]})):
                n += 1
                nt += pl > 4 or al != 16
                if res:
                    ctx.report(res[0], case, res[1])
    ctx.bulk(n, nontrivial_distinct=nt, label='length-pairs')
    ctx.enumerated('all 63 pairs of PIN length 4..12 x PAN length 13..19, both formats, clear and encrypted')
    ctx.sample({'format': 0, 'pin': make_pin(12, 3), 'pan': make_pan(19, 5), 'key_bytes': 24})


def sweep_digits(ctx):
    n = 0
    for pl in (4, 6, 9, 10, 12):
        for al in (13, 16, 19):
            base_pin, base_pan = '1' * pl, '2' * al
            for pos in range(pl):
                for d in '0123456789':
                    pin = base_pin[:pos] + d + base_pin[pos + 1:]
                    n += 2
                    for res, case in ((check0(pin, base_pan), {'fmt': 0, 'pin': pin, 'pan': base_pan, 'key': None}),
                                      (check4(pin, 1), {'fmt': 4, 'pin': pin, 'fill': 1, 'key': None})):
                        if res:
                            ctx.report(res[0], case, res[1])
            for pos in range(al):
                for d in '0123456789':
                    pan = base_pan[:pos] + d + base_pan[pos + 1:]
                    n += 1
                    res = check0(base_pin, pan)
                    if res:
                        ctx.report(res[0], {'fmt': 0, 'pin': base_pin, 'pan': pan, 'key': None}, res[1])
    ctx.bulk(n, nontrivial_distinct=n - 400, label='digit-sweep')
    ctx.enumerated('every digit value at every PIN position and every PAN position for 5 PIN lengths x 3 PAN lengths')


def fresh(ctx):
    for pin in ('1234', '123456789012', '0000000', '9' * 10):
        res = check_fresh(pin)
        ctx.bulk(200, nontrivial_distinct=0, label='fresh-fill-blocks')
        if res:
            ctx.report(res[0], {'fmt': 'fresh', 'pin': pin}, res[1])
    ctx.sample({'format': 4, 'pin': '1234', 'random_value': 'none supplied', 'blocks': 200})


def hyp_blocks(ctx, n):
    refcrypto.selftest()
    digits = lambda lo, hi: uniform(lo, hi).flatmap(lambda k: st.text(alphabet='0123456789', min_size=k, max_size=k))
    fills = st.one_of(st.sampled_from([1, 2, 1 << 63, (1 << 64) - 1, 0xffffffff, 1 << 32]), st.integers(1, (1 << 64) - 1),
                      st.binary(min_size=8, max_size=8).map(lambda b: int.from_bytes(b, 'big') or 1))
    key3 = st.one_of(st.sampled_from(KEYS3), st.binary(min_size=16, max_size=16).map(bytes.hex), st.binary(min_size=24, max_size=24).map(bytes.hex),
                     st.binary(min_size=24, max_size=24).map(lambda b: b.hex().upper()))
    keya = st.one_of(st.sampled_from(KEYSA), st.sampled_from([16, 24, 32]).flatmap(lambda k: st.binary(min_size=k, max_size=k)).map(bytes.hex))

    def body(v):
        pin, pan, fill, k3, ka, data = v
        ctx.case(key=harness.digest((pin, pan, fill, k3, ka)), nontrivial=len(pin) > 4 or len(pan) != 16,
                 labels=['hyp', f'pinlen={len(pin)}', f'panlen={len(pan)}', f'3des-key={len(k3) // 2}', f'aes-key={len(ka) // 2}'])
        if len(ctx.samples) < 3:
            ctx.sample({'pin': pin, 'pan': pan, 'fill': hex(fill), 'tdes_key_bytes': len(k3) // 2, 'aes_key_bytes': len(ka) // 2})
        res = check0(pin, pan, k3)
        if res:
            ctx.fail(res[0], {'fmt': 0, 'pin': pin, 'pan': pan, 'key': k3}, res[1])
        res = check4(pin, fill, ka, k3)
        if res:
            ctx.fail(res[0], {'fmt': 4, 'pin': pin, 'fill': fill, 'key': ka, 'key3': k3}, res[1])
        res = check_mixin_ecb(data, k3, ka)
        if res:
            ctx.fail(res[0], {'fmt': 'mixin', 'data': data, 'key3': k3, 'key': ka}, res[1])
    blocks = st.sampled_from([16, 32, 48, 64]).flatmap(lambda k: st.one_of(st.binary(min_size=k, max_size=k), st.binary(min_size=16, max_size=16).map(lambda b: (b * 4)[:k])))
    harness.drive(ctx, st.tuples(digits(4, 12), digits(13, 19), fills, key3, keya, blocks), body, n, salt='blocks')


def tasks(tier, seed):
    full = tier == 'thorough'
    t = [('sweep_pairs', {}), ('sweep_digits', {}), ('fresh', {})]
    for i in range(12 if not full else 13):
        t.append(('hyp_blocks', dict(n=250 if not full else 1500)))
    return t


def replay(case):
    refcrypto.selftest()
    if case['fmt'] == 0:
        return check0(case['pin'], case['pan'], case.get('key'))
    if case['fmt'] == 4:
        return check4(case['pin'], case['fill'], case.get('key'), case.get('key3'))
    if case['fmt'] == 'mixin':
        return check_mixin_ecb(case['data'], case['key3'], case['key'])
    return check_fresh(case['pin'])
