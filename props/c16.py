"""C16 - Masking never discloses more than the first six and last four digits."""
import io

from hypothesis import strategies as st

from vlib import harness, gen_iso, codecs_, refcodec, refvbs
from vlib.strat import uniform
from vlib.harness import exc_sig
from cardutil import card, iso8583, mciipm

LEVEL = 'exploration'
EXHAUSTIVE = True
TECHNIQUE = 'exhaustive lengths x content classes x mask characters for mask(); Hypothesis-generated masking configurations decoded through loads and IpmReader, exact-mask oracle plus whole-PAN absence scan'
RULE = ('mask(): every length 10..40 x {digits, letters, the mask character itself, mixed Unicode} x 12 mask characters '
        'enumerated, lengths up to 99 via Hypothesis; result must have the same length, keep the first six and last four and '
        'hold the mask character everywhere between. Decoding: generated configurations put PAN or PAN-PREFIX on any '
        'variable-length bit 2..127 (with and without the explicit field_python_type "string") next to digit-free text elements; PANs of 10..40 digits plus 99 (LLVAR) / 999 (LLLVAR); '
        'through loads and through IpmReader (VBS and 1014) the element must equal the reference mask / first nine digits and '
        'the clear PAN must occur in no str value and (encoded) in no bytes value. Non-trivial = length not in {12, 16} or the '
        'processor on a bit other than 2; distinct by digest.')
ASSUMPTIONS = ['half of the configurations are passed through JSON (as from --config-file): equal values, fresh string objects', 'mask characters are single characters', 'card numbers have at least 10 characters',
               'the middle digits are not searched for as a substring (a PAN such as 1111... legitimately repeats them in its first six)']

MASK_CHARS = ['*', '#', 'X', 'x', '0', '9', '-', ' ', '.', '•', 'é', '\\']


def check_mask(number, ch):
    try:
        out = card.mask(number, ch) if ch != '*' else card.mask(number)
    except Exception as ex:
        return exc_sig('mask-raises', ex), f'mask({number!r}, {ch!r}) raised {ex!r}'
    n = len(number)
    if not isinstance(out, str) or len(out) != n:
        return 'mask-length', f'mask of a {n}-character number has length {len(out)}: {out!r}'
    if out[:6] != number[:6] or out[n - 4:] != number[n - 4:]:
        return 'mask-ends', f'mask({number!r}) = {out!r} does not keep the first six / last four'
    for i in range(6, n - 4):
        if out[i] != ch:
            return 'mask-middle', f'mask({number!r}, {ch!r}) = {out!r}: position {i} is not the mask character'
    # the result is a function of (number, mask character): the same number under another mask character and then the
    # first call again give the corresponding results
    other = '#' if ch != '#' else '*'
    try:
        o2, o3 = card.mask(number, other), card.mask(number, ch)
    except Exception as ex:
        return exc_sig('mask-raises:on-repeat', ex), f'mask({number!r}) raised {ex!r} on a repeated call'
    if o3 != out or o2 != number[:6] + other * (n - 10) + number[n - 4:]:
        return 'mask-differs:on-repeat', f'mask({number!r}, {other!r}) = {o2!r} and then mask({number!r}, {ch!r}) = {o3!r} (first call gave {out!r})'
    return None


def content(kind, n, ch):
    if kind == 'digits':
        return ('4929123456789012345' * 8)[:n]
    if kind == 'same-digit':
        return '1' * n
    if kind == 'letters':
        return ('ABCDEFGHIJKLMNOPQRSTUVWXYZ' * 5)[:n]
    if kind == 'maskchar':
        return ch * n
    return ('4é*#9 ü0' * 20)[:n]


def sweep_mask(ctx):
    n = nt = 0
    for ln in range(10, 41):
        for kind in ('digits', 'same-digit', 'letters', 'maskchar', 'unicode'):
            for ch in MASK_CHARS:
                n += 1
                nt += ln not in (12, 16)
                num = content(kind, ln, ch)
                res = check_mask(num, ch)
                if res:
                    ctx.report(res[0], {'kind': 'mask', 'number': num, 'ch': ch}, res[1])
    ctx.bulk(n, nontrivial_distinct=nt, label='mask-sweep')
    ctx.enumerated('mask(): every length 10..40 x 5 content classes x 12 mask characters')
    ctx.sample({'mask': {'number': content('digits', 19, '*'), 'mask_char': '*'}})


def hyp_mask(ctx, n):
    def body(v):
        num, ch = v
        ctx.case(key=harness.digest(('m', num, ch)), nontrivial=len(num) not in (12, 16), labels=['mask-hyp'])
        res = check_mask(num, ch)
        if res:
            ctx.fail(res[0], {'kind': 'mask', 'number': num, 'ch': ch}, res[1])
    strat = st.tuples(st.one_of(st.text(alphabet='0123456789', min_size=10, max_size=99),
                                st.text(min_size=10, max_size=60)),
                      st.one_of(st.sampled_from(MASK_CHARS), st.characters()))
    harness.drive(ctx, strat, body, n, salt='mask')


NODIGIT = 'ABCDEFGHIJKLMNOPQRSTUVWXYZ abcdefghij-/'


@st.composite
def decode_cases(draw, tier):
    codec = draw(gen_iso.codec_strategy(tier))
    rep = codecs_.repertoire(codec)
    alpha = ''.join(c for c in NODIGIT if c in rep)
    hexbm = draw(st.booleans())
    bit = draw(st.one_of(st.sampled_from([2, 2, 9, 64, 65, 127]), uniform(2, 127)))
    ftype = draw(st.sampled_from(['LLVAR', 'LLLVAR']))
    proc = draw(st.sampled_from(['PAN', 'PAN', 'PAN-PREFIX']))
    top = 99 if ftype == 'LLVAR' else 999
    n = draw(st.one_of(st.sampled_from([10, 11, 12, 13, 15, 16, 19, 20, 21, 40, top]), uniform(10, 40)))
    pan = draw(st.one_of(st.text(alphabet='0123456789', min_size=n, max_size=n),
                         st.text(alphabet='0123456789', min_size=n, max_size=n),
                         st.sampled_from(['1', '9', '0']).map(lambda d: d * n)))
    shape = draw(st.sampled_from(['digits', 'digits', 'digits', 'track2', 'mixed']))
    if shape == 'track2' and n + 5 <= top:
        # what else ends up in an element configured for masking: card number, separator, expiry date, the rest
        k = draw(uniform(12, 19))
        sep = draw(st.sampled_from([c for c in '=D^' if c in rep] or ['0']))
        tail = draw(st.text(alphabet='0123456789', min_size=4, max_size=max(4, min(20, top - k - 1))))
        pan = (pan * 2)[:k] + sep + tail
    elif shape == 'mixed':
        extra = ''.join(c for c in '=D^ -/AF' if c in rep)
        pan = draw(st.text(alphabet='0123456789' + extra, min_size=n, max_size=n))
        if not pan.strip(' '):
            pan = '4' + pan[1:]
    config = {str(bit): {'field_type': ftype, 'field_length': draw(st.sampled_from([0, 0, 19])), 'field_processor': proc}}
    pt = draw(st.sampled_from([None, None, 'string', 'string']))
    if pt:
        config[str(bit)]['field_python_type'] = pt
    if draw(st.booleans()):
        config[str(bit)]['field_processor_config'] = ''
    msg = {'MTI': draw(st.sampled_from(['1240', '1644'])), 'DE%d' % bit: pan}
    others = draw(st.lists(uniform(2, 127).filter(lambda b: b != bit), max_size=4, unique=True))
    for b in others:
        kind = draw(st.sampled_from(['FIXED', 'LLVAR', 'LLLVAR']))
        ln = draw(uniform(1, 30))
        config[str(b)] = {'field_type': kind, 'field_length': ln if kind == 'FIXED' else 0}
        msg['DE%d' % b] = draw(gen_iso.tiled_text(codec, ln, alphabet=alpha))
    blocked = draw(st.booleans())
    if draw(st.booleans()):
        config = gen_iso.from_json(config)       # as loaded from a configuration file: equal, but no interned literals
    return config, codec, hexbm, msg, bit, proc, blocked


def check_decode(config, codec, hexbm, msg, bit, proc, blocked):
    pan = msg['DE%d' % bit]
    data = refcodec.encode(config, codec, hexbm, msg)
    want = refcodec.mask_pan(pan) if proc == 'PAN' else pan[:9]
    results = []
    try:
        results.append(('loads', iso8583.loads(data, encoding=codec, iso_config=gen_iso.same_object(config, len(data)), hex_bitmap=hexbm)))
    except Exception as ex:
        return exc_sig('loads-raises', ex), f'loads raised {ex!r} on a well-formed message with a {len(pan)}-digit PAN on DE{bit}'
    if not hexbm:
        stream = refvbs.vbs([data])
        f = io.BytesIO(refvbs.block(stream) if blocked else stream)
        try:
            recs = list(mciipm.IpmReader(f, encoding=codec, iso_config=config, blocked=blocked))
        except Exception as ex:
            return exc_sig('reader-raises', ex), f'IpmReader raised {ex!r} on a well-formed file with a {len(pan)}-digit PAN on DE{bit}'
        if len(recs) != 1:
            return 'reader-count', f'IpmReader returned {len(recs)} records for a one-record file'
        results.append(('IpmReader', recs[0]))
    penc = pan.encode(codec)
    for via, out in results:
        got = out.get('DE%d' % bit)
        if got != want:
            return f'{proc}:element-not-masked', (f'{via}: DE{bit} ({proc}, {len(pan)} digits) returned {got!r}, expected {want!r}')
        for k, v in out.items():
            if k == 'DE%d' % bit and want == pan:
                continue  # a 10-character number has no middle: first six + last four is the whole number
            if isinstance(v, str) and pan in v:
                return f'{proc}:clear-pan-in-result', f'{via}: clear PAN present in {k} = {v!r}'
            if isinstance(v, (bytes, bytearray)) and (penc in v or pan.encode('ascii') in v):
                return f'{proc}:clear-pan-in-result', f'{via}: clear PAN bytes present in {k}'
    return None


def hyp_decode(ctx, n):
    def body(v):
        config, codec, hexbm, msg, bit, proc, blocked = v
        pan = msg['DE%d' % bit]
        ctx.case(key=harness.digest((config, codec, hexbm, msg, blocked)), nontrivial=len(pan) not in (12, 16) or bit != 2,
                 labels=['decode', 'proc:' + proc, 'value:digits' if pan.isdigit() else 'value:with-other-characters', 'bit=2' if bit == 2 else 'bit!=2', 'pan>19' if len(pan) > 19 else 'pan<=19',
                         'family:' + codecs_.family(codec)])
        if len(ctx.samples) < 5:
            ctx.sample({'config': gen_iso.describe(config), 'codec': codec, 'message': msg, 'via': ['loads', 'IpmReader']})
        res = check_decode(config, codec, hexbm, msg, bit, proc, blocked)
        if res:
            ctx.fail(res[0], {'kind': 'decode', 'config': config, 'codec': codec, 'hex': hexbm, 'msg': msg, 'bit': bit,
                              'proc': proc, 'blocked': blocked}, res[1])
    harness.drive(ctx, decode_cases(ctx.tier), body, n, salt='decode')
    ctx.floor('pan>19', 0.10, 'decode')


def sweep_decode(ctx):
    """every PAN length 10..99 (LLVAR) and a stride of 10..999 (LLLVAR) on the packaged-style DE2, both processors"""
    n = 0
    for ftype, lengths in (('LLVAR', range(10, 100)), ('LLLVAR', list(range(10, 130)) + list(range(130, 1000, 29)) + [998, 999])):
        for proc in ('PAN', 'PAN-PREFIX'):
            for ln in lengths:
                config = {'2': {'field_type': ftype, 'field_length': 0, 'field_processor': proc},
                          '3': {'field_type': 'FIXED', 'field_length': 6}}
                if ln % 2:
                    config['2']['field_python_type'] = 'string'
                if ln % 4 < 2:
                    config = gen_iso.from_json(config)
                pan = ('5412345678901234567' * 60)[:ln]
                msg = {'MTI': '1240', 'DE2': pan, 'DE3': 'ABCDEF'}
                n += 1
                codec = 'latin_1' if n % 2 else 'cp500'
                res = check_decode(config, codec, False, msg, 2, proc, bool(n % 3))
                if res:
                    ctx.report(res[0], {'kind': 'decode', 'config': config, 'codec': codec, 'hex': False, 'msg': msg, 'bit': 2,
                                        'proc': proc, 'blocked': bool(n % 3)}, res[1])
    ctx.bulk(n, nontrivial_distinct=n - 8, label='decode-sweep')
    ctx.enumerated('decode: every PAN length 10..99 on an LLVAR element and 10..129 + stride + 998, 999 on an LLLVAR element, PAN and PAN-PREFIX')


def tasks(tier, seed):
    full = tier == 'thorough'
    t = [('sweep_mask', {}), ('sweep_decode', {})]
    for i in range(4 if not full else 6):
        t.append(('hyp_mask', dict(n=600 if not full else 3000)))
    for i in range(10):
        t.append(('hyp_decode', dict(n=400 if not full else 2500)))
    return t


def replay(case):
    if case['kind'] == 'mask':
        return check_mask(case['number'], case['ch'])
    return check_decode(case['config'], case['codec'], case['hex'], case['msg'], case['bit'], case['proc'], case['blocked'])
