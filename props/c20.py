"""C20 - CSV to IPM to CSV returns the same rows."""
import contextlib
import csv
import datetime
import io
import json
import os
import shutil
import tempfile
import zlib

from hypothesis import strategies as st

from vlib import harness, gen_iso, codecs_, refcodec
from vlib.harness import exc_sig
from vlib.strat import uniform
from cardutil import config as cfgmod
from cardutil.cli import mci_csv_to_ipm, mci_ipm_to_csv, mideu

LEVEL = 'exploration'
EXHAUSTIVE = False
TECHNIQUE = 'Hypothesis-generated CSV tables over the configured output columns (boundary lengths, CSV metacharacters, typed cells) through mci_csv_to_ipm then mci_ipm_to_csv, function entry points and command entry points on real files; cell-by-cell comparison of supplied cells'
RULE = ('Tables over the configured output list restricted to what can be an input (MTI, DEn, PDSxxxx), 1..40 rows, MTI always present, '
        'other cells empty with probability ~1/4; fixed fields exactly the field width, variable ones 1..99/999 characters from the '
        'non-control part of the IPM codec repertoire, rich in commas, quotes and leading/trailing blanks; integers as plain decimal; '
        'date-times as YYYY-MM-DD HH:MM:SS or the T form inside 1969..2068; a row never supplies both PDS columns and a carrier '
        'column, a supplied carrier is a valid PDS string; generated output_data_elements lists as well as the packaged one; '
        '{latin_1, cp500, cp037} x blocked/unblocked; function entry points and cli_run of both tools on real files (plus mideu extract as a second extractor for latin_1 / cp500 files). Oracle: same '
        'number of rows in the same order; every non-empty input cell comes back equal (text exactly, numbers numerically, '
        'date-times after parsing both sides). Unblocked files that look blocked (0x40 0x40 at bytes 1012-1013 and 2026-2027, from long runs of the 0x40 character in DE72) through the command entry points. Tables of >= 1100 rows (generated rows repeated) go through the same comparison. Non-trivial = >= 2 rows or a cell with a CSV metacharacter; distinct by digest.')
ASSUMPTIONS = ['an empty input cell means "absent"; the output may hold a derived value there (e.g. DE48 built from PDS columns)',
               'cells contain no control characters (CSV is a text format; a bare CR cannot survive lineterminator="\\n")',
               'date cells are ISO 8601 (blank or T between date and time): what dateutil.parser.parse and, when python-dateutil is absent (a quarter of the tasks block its import), datetime.fromisoformat both read',
               'CARDUTIL_CONFIG is not set in the environment of the check']

os.environ.pop('CARDUTIL_CONFIG', None)
PKG = cfgmod.config
BIT = {k: v for k, v in PKG['bit_config'].items() if k != '1'}
ENCS = ['latin_1', 'cp500', 'cp037']
INPUT_COLUMNS = [c for c in PKG['output_data_elements'] if c == 'MTI' or (c.startswith('DE') and '_' not in c) or c.startswith('PDS')]
EXTRA_COLUMNS = ['DE5', 'DE6', 'DE9', 'DE10', 'DE32', 'DE51', 'DE54', 'DE72', 'DE111', 'DE127', 'PDS0001', 'PDS0105', 'PDS9999']
META = ',"\' ;'


def alphabet(codec):
    return ''.join(c for c in codecs_.printable(codec))


@st.composite
def cell_text(draw, codec, n):
    alpha = draw(st.sampled_from([alphabet(codec), alphabet(codec), 'ab,"\' ', ' ,', '"', 'AZ09 ', '0123456789']))
    seed = draw(st.text(alphabet=alpha, min_size=1, max_size=min(n, 10)))
    return (seed * (n // len(seed) + 1))[:n]


@st.composite
def cell_for(draw, col, codec):
    if col == 'MTI':
        return draw(gen_iso.MTI)
    if col.startswith('PDS'):
        return draw(cell_text(codec, draw(st.one_of(uniform(1, 40), st.sampled_from([300, 700, 900, 985])))))
    cfg = BIT[col[2:]]
    pt = cfg.get('field_python_type')
    if pt in ('int', 'long'):
        w = cfg['field_length']
        v = draw(st.one_of(st.sampled_from([0, 1, 10 ** w - 1, 10 ** (w - 1)]), st.integers(0, 10 ** w - 1)))
        return str(v)
    if pt == 'datetime':
        dt = draw(gen_iso.datetimes_for(cfg['field_date_format']))
        return dt.strftime(draw(st.sampled_from(['%Y-%m-%d %H:%M:%S', '%Y-%m-%dT%H:%M:%S'])))
    if cfg.get('field_processor') == 'PDS':
        items = []
        for t in draw(st.lists(uniform(0, 9999), min_size=1, max_size=4, unique=True)):
            v = draw(cell_text(codec, draw(uniform(1, 20)))) if draw(st.booleans()) else ''
            items.append('%04d%03d%s' % (t, len(v), v))
        return ''.join(items)
    if cfg['field_type'] == 'FIXED':
        return draw(cell_text(codec, cfg['field_length']))
    top = 99 if cfg['field_type'] == 'LLVAR' else 999
    n = draw(st.one_of(st.sampled_from([1, 2, 9, 10, top - 1, top]), uniform(1, top), uniform(1, 20)))
    return draw(cell_text(codec, n))


@st.composite
def tables(draw, tier):
    codec = draw(st.sampled_from(ENCS))
    custom = draw(st.sampled_from([False, False, True])) if tier == 'quick' else draw(st.booleans())
    if custom:
        cols = draw(st.lists(st.sampled_from(INPUT_COLUMNS + EXTRA_COLUMNS), min_size=1, max_size=14, unique=True))
        cols = ['MTI'] + [c for c in cols if c != 'MTI']
        if draw(st.booleans()):
            cols = cols + ['DE43_NAME', 'ICC_DATA']
        config = {'bit_config': PKG['bit_config'], 'output_data_elements': cols}
    else:
        cols = list(PKG['output_data_elements'])
        config = None
    in_cols = [c for c in cols if c in INPUT_COLUMNS + EXTRA_COLUMNS]
    carriers = [c for c in in_cols if c.startswith('DE') and BIT[c[2:]].get('field_processor') == 'PDS']
    pds_cols = [c for c in in_cols if c.startswith('PDS')]
    nrows = draw(st.one_of(uniform(1, 4), uniform(1, 40)))
    rows = []
    for _ in range(nrows):
        use_carrier = draw(st.booleans())
        row = {}
        dense = draw(st.sampled_from([0.25, 0.5, 0.9]))
        for c in in_cols:
            if c == 'MTI':
                row[c] = draw(cell_for(c, codec))
                continue
            if c in carriers and not use_carrier:
                continue
            if c in pds_cols and use_carrier:
                continue
            if draw(st.floats(0, 1)) < dense:
                row[c] = draw(cell_for(c, codec))
        # PDS columns must fit the five carrier elements (sized with the reference packer; construction, not rejection)
        pds = sorted(k for k in row if k.startswith('PDS'))
        while pds and len(refcodec.pack_pds([(int(k[3:]), row[k]) for k in pds])) > 5:
            k = max(pds, key=lambda k: len(row[k]))
            row[k] = row[k][:len(row[k]) // 2] or 'x'
        rows.append(row)
    blocked = draw(st.booleans())
    return codec, config, in_cols, rows, blocked


def to_csv_text(in_cols, rows):
    out = io.StringIO()
    w = csv.DictWriter(out, fieldnames=in_cols, lineterminator='\n')
    w.writeheader()
    for r in rows:
        w.writerow({c: r.get(c, '') for c in in_cols})
    return out.getvalue()


def run_functions(csv_text, codec, config, blocked):
    cfg = config or PKG
    ipm = io.BytesIO()
    mci_csv_to_ipm.mci_csv_to_ipm(in_csv=io.StringIO(csv_text), out_ipm=ipm, config=cfg, out_encoding=codec, no1014blocking=not blocked)
    out = io.StringIO()
    mci_ipm_to_csv.mci_ipm_to_csv(in_ipm=io.BytesIO(ipm.getvalue()), out_csv=out, config=cfg, in_encoding=codec, no1014blocking=not blocked)
    return out.getvalue()


def run_cli(csv_text, codec, config, blocked, scratch):
    src = os.path.join(scratch, 'in.csv')
    ipm = os.path.join(scratch, 'mid.ipm')
    dst = os.path.join(scratch, 'out.csv')
    with open(src, 'w', encoding='utf8', newline='') as f:
        f.write(csv_text)
    cfgfile = None
    if config is not None:
        cfgfile = os.path.join(scratch, 'cardutil.json')
        with open(cfgfile, 'w') as f:
            json.dump(config, f)
    sink = io.StringIO()
    with contextlib.redirect_stdout(sink):
        extra = ([] if blocked else ['--no1014blocking']) + (['--config-file', cfgfile] if cfgfile else [])
        dbg = ['--debug'] if zlib.crc32(csv_text.encode('utf8')) % 2 else []      # the tools' own diagnostic switch, half of the runs
        a1 = [src, '-o', ipm, '--in-encoding', 'utf8', '--out-encoding', codecs_.spell(codec, len(csv_text))] + extra + dbg
        mci_csv_to_ipm.cli_run(**vars(mci_csv_to_ipm.cli_parser().parse_args(a1)))      # what cli_entry does with sys.argv
        a2 = [ipm, '-o', dst, '--in-encoding', codecs_.spell(codec, len(csv_text) + 1), '--out-encoding', 'utf8'] + extra + dbg
        rc = mci_ipm_to_csv.cli_run(**vars(mci_ipm_to_csv.cli_parser().parse_args(a2)))
    if rc == -1:
        raise RuntimeError('mci_ipm_to_csv reported a data error: ' + sink.getvalue()[-400:])
    with open(dst, encoding='utf8', newline='') as f:
        text = f.read()
    if codec in ('latin_1', 'cp500'):
        # the legacy extractor is a second command entry point for the same extraction (cp500 = "ebcdic", latin1 = "ascii")
        dst2 = os.path.join(scratch, 'out2.csv')
        argv = (['extract', ipm, '-s', 'ebcdic' if codec == 'cp500' else 'ascii', '--csvoutputfile', dst2] + ([] if blocked else ['--no1014blocking'])
                + (['-d' if len(csv_text) % 3 else '-v'] if dbg else []))
        if cfgfile:
            os.environ['CARDUTIL_CONFIG'] = scratch      # mideu finds cardutil.json through the environment variable
        try:
            with contextlib.redirect_stdout(sink):
                rc2 = mideu.cli_entry(argv)
        finally:
            os.environ.pop('CARDUTIL_CONFIG', None)
        if rc2 == -1:
            raise RuntimeError('mideu extract reported a data error: ' + sink.getvalue()[-400:])
        with open(dst2, encoding='utf8', newline='') as f:
            return text, f.read()
    return text, None


def compare(in_cols, rows, out_text, via):
    back = list(csv.DictReader(io.StringIO(out_text)))
    if len(back) != len(rows):
        return 'row-count', f'{via}: {len(rows)} rows in, {len(back)} rows out'
    for i, (r, o) in enumerate(zip(rows, back)):
        for c, v in r.items():
            if v == '':
                continue
            got = o.get(c)
            kind = 'text'
            ok = got == v
            if c.startswith('DE') and c[2:] in BIT:
                pt = BIT[c[2:]].get('field_python_type')
                if pt in ('int', 'long'):
                    kind = 'number'
                    ok = got is not None and got.strip().lstrip('+').isdigit() and int(got) == int(v)
                elif pt == 'datetime':
                    kind = 'datetime'
                    try:
                        ok = got is not None and datetime.datetime.fromisoformat(got) == datetime.datetime.fromisoformat(v)
                    except ValueError:
                        ok = False
            elif c.startswith('PDS'):
                kind = 'pds'
            if not ok:
                return 'cell-differs:' + kind, f'{via}: row {i + 1} column {c}: supplied {v!r}, came back {got!r}'
    return None


def check(codec, config, in_cols, rows, blocked, scratch, cli):
    text = to_csv_text(in_cols, rows)
    try:
        out = run_functions(text, codec, config, blocked)
    except Exception as ex:
        return exc_sig('functions-raise', ex), f'CSV -> IPM -> CSV raised {ex!r} (cause {getattr(ex, "ex", None)!r}); first row {rows[0]}'
    res = compare(in_cols, rows, out, 'functions')
    if res:
        return res
    if cli:
        try:
            out, out2 = run_cli(text, codec, config, blocked, scratch)
        except Exception as ex:
            return exc_sig('cli-raises', ex), f'command entry points raised {ex!r}; first row {rows[0]}'
        res = compare(in_cols, rows, out, 'cli')
        if res:
            return res[0] + ':cli', res[1]
        if out2 is not None:
            res = compare(in_cols, rows, out2, 'mideu extract')
            if res:
                return res[0] + ':mideu-extract', res[1]
    return None


def hyp_tables(ctx, n, cli, many=False):
    scratch = tempfile.mkdtemp(prefix='cardutil-verif-c20-')
    try:
        def body(v):
            codec, config, in_cols, rows, blocked = v
            if many:
                # a table of >= 1100 rows (the generated rows repeated); `repeat` keeps the replay small
                repeat = -(-1100 // len(rows))
                ctx.case(key=harness.digest((codec, config is not None, in_cols, rows, blocked, repeat)), nontrivial=True,
                         labels=['table-many-rows', 'blocked' if blocked else 'vbs'])
                res = check(codec, config, in_cols, rows * repeat, blocked, scratch, cli)
                if res:
                    ctx.fail(res[0], {'codec': codec, 'config': config, 'in_cols': in_cols, 'rows': rows, 'blocked': blocked, 'cli': cli, 'repeat': repeat}, res[1])
                return
            meta = any(any(ch in META for ch in x) for r in rows for x in r.values())
            ctx.case(key=harness.digest((codec, config is not None, in_cols, rows, blocked)), nontrivial=len(rows) >= 2 or meta,
                     labels=['table', 'blocked' if blocked else 'vbs', 'codec:' + codec, 'columns:custom' if config else 'columns:packaged',
                             'has-metachar' if meta else 'no-metachar', 'via-cli' if cli else 'via-functions',
                             'has-zero-cell' if any(x == '0' for r in rows for x in r.values()) else 'no-zero-cell'])
            if len(ctx.samples) < 4:
                ctx.sample({'codec': codec, 'blocked': blocked, 'rows': len(rows), 'first_row': rows[0]})
            res = check(codec, config, in_cols, rows, blocked, scratch, cli)
            if res:
                ctx.fail(res[0], {'codec': codec, 'config': config, 'in_cols': in_cols, 'rows': rows, 'blocked': blocked, 'cli': cli}, res[1])
        harness.drive(ctx, tables(ctx.tier), body, n, salt=('tables-cli' if cli else 'tables') + ('-many' if many else ''))
    finally:
        shutil.rmtree(scratch, ignore_errors=True)


@st.composite
def lookalike_tables(draw):
    """unblocked files whose bytes 1012-1013 (and 2026-2027) are both 0x40: inspection may call such a file blocked
    (the inspection property allows it), the tools must go by what they are told (--no1014blocking)"""
    codec = draw(st.sampled_from(ENCS))
    fill = bytes([0x40]).decode(codec)          # blank under the EBCDIC codecs, '@' under the ASCII family
    cols = ['MTI', 'DE2', 'DE72', 'DE3', 'DE43'] if draw(st.booleans()) else ['MTI', 'DE72', 'DE54']
    config = {'bit_config': PKG['bit_config'], 'output_data_elements': cols}
    rows = []
    for i in range(draw(uniform(2, 5))):
        head = draw(st.text(alphabet='ABCXYZ019', min_size=1, max_size=3))
        tail = draw(st.text(alphabet='ABCXYZ019', min_size=1, max_size=3))
        n = draw(st.sampled_from([999, 998, 990]))
        row = {'MTI': draw(gen_iso.MTI), 'DE72': head + fill * (n - len(head) - len(tail)) + tail}
        if 'DE2' in cols and draw(st.booleans()):
            row['DE2'] = draw(cell_for('DE2', codec))
        rows.append(row)
    return codec, config, cols, rows, False


def hyp_lookalike(ctx, n):
    scratch = tempfile.mkdtemp(prefix='cardutil-verif-c20-')
    try:
        def body(v):
            codec, config, in_cols, rows, blocked = v
            res = check(codec, config, in_cols, rows, blocked, scratch, True)
            looks = False
            mid = os.path.join(scratch, 'mid.ipm')
            if os.path.exists(mid):
                with open(mid, 'rb') as f:
                    data = f.read()
                looks = data[1012:1014] == b'@@' and (len(data) < 2028 or data[2026:2028] == b'@@')
                os.unlink(mid)
            ctx.case(key=harness.digest((codec, in_cols, rows)), nontrivial=looks,
                     labels=['lookalike', 'unblocked-file-looks-blocked' if looks else 'unblocked-file-looks-unblocked', 'codec:' + codec])
            if res:
                ctx.fail(res[0], {'codec': codec, 'config': config, 'in_cols': in_cols, 'rows': rows, 'blocked': blocked, 'cli': True}, res[1])
        harness.drive(ctx, lookalike_tables(), body, n, salt='lookalike')
    finally:
        shutil.rmtree(scratch, ignore_errors=True)
    ctx.floor('unblocked-file-looks-blocked', 0.5, 'lookalike')


def sweep_record_lengths(ctx):
    """tables whose rows give records of every length in a window around two and three block payloads (long text cells,
    one of them one character longer from row to row): through 1014 blocking every alignment of a long record occurs"""
    scratch = tempfile.mkdtemp(prefix='cardutil-verif-c20-')
    try:
        n = 0
        for codec in ('latin_1', 'cp500'):
            for name, cols, fixed, var, lengths in (
                    ('two-blocks', ['MTI', 'DE54', 'DE72'], {'DE72': 'T' * 999}, 'DE54', range(930, 1000)),
                    ('three-blocks', ['MTI', 'DE54', 'DE72', 'DE111', 'DE127'], {'DE72': 'T' * 999, 'DE54': 'A' * 999, 'DE111': 'C' * 999}, 'DE127', range(1, 71))):
                config = {'bit_config': PKG['bit_config'], 'output_data_elements': cols}
                rows = [dict(fixed, MTI='1240', **{var: 'v' * k}) for k in lengths]
                n += 1
                ctx.case(key=harness.digest((codec, name)), nontrivial=True, labels=['record-length-sweep', 'codec:' + codec, name])
                res = check(codec, config, cols, rows, True, scratch, False)
                if res:
                    ctx.report(res[0] + ':record-length-sweep', {'codec': codec, 'config': config, 'in_cols': cols, 'rows': rows, 'blocked': True, 'cli': False}, res[1])
        ctx.enumerated('rows giving records of 70 consecutive lengths around 2 and 3 block payloads, 1014 blocked, latin_1 and cp500')
    finally:
        shutil.rmtree(scratch, ignore_errors=True)


def tasks(tier, seed):
    full = tier == 'thorough'
    t = []
    for i in range(6 if not full else 12):
        t.append(('hyp_tables', dict(n=60 if not full else 500, cli=False)))
    for i in range(2 if not full else 4):
        t.append(('hyp_tables', dict(n=30 if not full else 250, cli=True)))
    t.append(('hyp_tables', dict(n=2 if not full else 12, cli=False, many=True)))
    t.append(('hyp_tables', dict(n=2 if not full else 12, cli=True, many=True)))
    t.append(('hyp_lookalike', dict(n=25 if not full else 150)))
    t.append(('sweep_record_lengths', {}))
    return t


def replay(case):
    scratch = tempfile.mkdtemp(prefix='cardutil-verif-c20-')
    try:
        return check(case['codec'], case['config'], list(case['in_cols']), list(case['rows']) * case.get('repeat', 1), case['blocked'], scratch, case['cli'])
    finally:
        shutil.rmtree(scratch, ignore_errors=True)
