#!/venv/bin/python
"""libFuzzer target (run by props/c07_fuzz.py): fuzz_target.py <corpus_dir> <libFuzzer flags>

FUZZ_PROP = C07 | C08     which oracle sits inside the target
FUZZ_MODE = raw | hyp     raw: bytes = selector byte + message; hyp: atheris drives the Hypothesis mutation strategy
Findings are appended to FUZZ_FINDINGS (one JSON case per line) and fuzzing continues."""
import json
import os
import sys

import atheris

with atheris.instrument_imports(include=['cardutil']):
    from vlib import repo  # noqa: F401  (imports cardutil from VERIF_REPO, instrumented)
    import cardutil.iso8583  # noqa: F401
    import cardutil.mciipm  # noqa: F401

from vlib import harness, refcodec, gen_iso, mutate  # noqa: E402
from props import c07, c08, c07_fuzz  # noqa: E402

PROP = os.environ.get('FUZZ_PROP', 'C07')
MODE = os.environ.get('FUZZ_MODE', 'raw')
FINDINGS = os.environ['FUZZ_FINDINGS']
STATS = os.environ['FUZZ_STATS']
state = {'execs': 0, 'past_header': 0, 'nontrivial_digests': set(), 'samples': [], 'seen_sigs': set()}


def record(sig, case):
    if sig in state['seen_sigs'] and len(state['seen_sigs']) < 50:
        return
    state['seen_sigs'].add(sig)
    with open(FINDINGS, 'a') as f:
        f.write(json.dumps(harness.enc(case), default=repr) + '\n')


def flush():
    with open(STATS, 'w') as f:
        json.dump({'execs': state['execs'], 'past_header': state['past_header'],
                   'nontrivial_digests': [d.hex() for d in list(state['nontrivial_digests'])[:50000]],
                   'samples': state['samples']}, f)


def one(config, codec, hexbm, data, default_cfg):
    state['execs'] += 1
    rs = c07.reached(config, codec, hexbm, data)
    if 'fields' in rs:
        state['past_header'] += 1
        if len(state['nontrivial_digests']) < 50000:
            state['nontrivial_digests'].add(harness.digest((codec, hexbm, default_cfg, data)))
        if len(state['samples']) < 3 and ('pds' in rs or 'icc' in rs):
            state['samples'].append(harness.brief({'codec': codec, 'hex': hexbm, 'data': data[:80]}))
    if PROP == 'C07':
        res = c07.judge_loads(data, codec, config, hexbm, default_cfg)
    else:
        res, _ = c08.judge(config, codec, hexbm, data, default_cfg)
    if res:
        record(res[0], {'entry': 'loads', 'config': None if default_cfg else config, 'codec': codec, 'hex': hexbm, 'data': data})
    if state["execs"] % 500 == 0 or state["execs"] < 3:
        flush()


def raw_target(raw):
    if not raw:
        return
    case = c07_fuzz.case_from_bytes(raw)
    config = case['config'] or c07.PACKAGED
    one(config, case['codec'], case['hex'], case['data'], case['config'] is None)


def make_hyp_target():
    from hypothesis import given, settings, HealthCheck, strategies as st

    @st.composite
    def cases(draw):
        config, codec, hexbm, data, gen = draw(c07.valid_cases('quick', rich=True))
        frames = mutate.frames_of(config, codec, hexbm, data)
        ops = draw(mutate.op_lists(len(data), frames, codec))
        return config, codec, hexbm, mutate.apply(data, ops, frames, codec, hexbm), gen

    @settings(database=None, deadline=None, suppress_health_check=list(HealthCheck))
    @given(cases())
    def test(v):
        config, codec, hexbm, data, gen = v
        one(config, codec, hexbm, data, not gen)
    return test.hypothesis.fuzz_one_input


def main():
    target = raw_target if MODE == 'raw' else make_hyp_target()

    def wrapped(raw):
        try:
            target(raw)
        finally:
            pass
    atheris.Setup(sys.argv, wrapped)
    flush()
    import atexit
    atexit.register(flush)
    try:
        atheris.Fuzz()
    finally:
        flush()


if __name__ == '__main__':
    main()
