"""C19 - Encoding/format conversion tools preserve every record and are reversible."""
import collections
import contextlib
import copy
import io
import os
import shutil
import tempfile
import zlib

from hypothesis import strategies as st

from vlib import harness, gen_iso, codecs_, refcodec, refvbs
from vlib.harness import exc_sig
from vlib.strat import uniform
from cardutil import mciipm
from cardutil.cli import mci_ipm_encode, mci_ipm_param_encode, mideu, paramconv
from props import c06, c02

LEVEL = 'exploration'
EXHAUSTIVE = False
TECHNIQUE = 'Hypothesis-generated writer-produced IPM files (canonical PDS keys and raw non-canonical carriers, binary DE55) and arbitrary-byte parameter files through all four tools (function and command entry points on real files); differential read-back under A and B plus byte-exact return conversion'
RULE = ('Writer-produced IPM files (messages on the packaged configuration: typed fields, PDS via keys, binary DE55 with bytes >= '
        '0x80, arbitrary element subsets; and a second class with raw PDS carriers in non-ascending tag order or with a repeated tag) '
        'and parameter files of arbitrary-byte records; every ordered pair of {latin_1, cp500, cp037}; {vbs, 1014}^2. Tools: '
        'mci_ipm_encode (function and cli_run on real files), mideu convert (cli_entry on real files; cp500<->latin1, same format), '
        'mci_ipm_param_encode (function and cli_run), paramconv (cli_entry). Oracle: the output read under B equals the input read '
        'under A record by record (count, order, DE55 bytes), parameter records keep their text, and converting back with the '
        'original format reproduces the original file byte for byte. Files of >= 1100 records (generated records repeated) go through the same comparison. Non-trivial = A != B with a non-ASCII character or binary DE55 '
        'present, or formats differ; distinct by digest.')
ASSUMPTIONS = ['the three encodings cover the same 256-character repertoire, so every character is convertible',
               'input IPM files are written by the library\'s IpmWriter; parameter files by VbsWriter',
               'paramconv and mideu are always given explicit output names where they accept one']

PACKAGED = gen_iso.packaged_config()
ENCS = ['latin_1', 'cp500', 'cp037']
FORMATS = ['vbs', '1014']
PAIRS = [(a, b) for a in ENCS for b in ENCS] + [('cp500', 'latin_1'), ('latin_1', 'cp500')] * 3


def quiet():
    sink = io.StringIO()
    return contextlib.redirect_stdout(sink)


def write_ipm(msgs, codec, fmt):
    f = io.BytesIO()
    with mciipm.IpmWriter(f, encoding=codec, blocked=fmt == '1014') as w:
        for m in msgs:
            w.write(copy.deepcopy(m))
    return f.getvalue()


def read_ipm(data, codec, fmt):
    return list(mciipm.IpmReader(io.BytesIO(data), encoding=codec, blocked=fmt == '1014'))


def run_ipm_tool(tool, data, a, b, fa, fb, scratch):
    """convert IPM bytes; returns output bytes"""
    if tool == 'mci_ipm_encode':
        out = io.BytesIO()
        mci_ipm_encode.mci_ipm_encode(io.BytesIO(data), out_file=out, in_encoding=codecs_.spell(a, len(data)), out_encoding=codecs_.spell(b, len(data) + 1), in_format=fa, out_format=fb,
                                      **({'debug': True} if zlib.crc32(data) % 4 == 1 else {}))
        return out.getvalue()
    src = os.path.join(scratch, 'in.ipm')
    with open(src, 'wb') as f:
        f.write(data)
    if tool == 'mci_ipm_encode-cli' and zlib.crc32(data) % 3 == 0:
        def run(path):
            with quiet():
                argv = [path, '--in-encoding', codecs_.spell(a, len(data)), '--out-encoding', codecs_.spell(b, len(data) + 1), '--in-format', fa, '--out-format', fb] + opts(data)
                mci_ipm_encode.cli_run(**vars(mci_ipm_encode.cli_parser().parse_args(argv)))
        return run_without_output_name(scratch, data, '.ipm', run)
    if tool == 'mci_ipm_encode-cli':
        dst = os.path.join(scratch, 'out.ipm')
        with quiet():
            argv = [src, '-o', dst, '--in-encoding', codecs_.spell(a, len(data)), '--out-encoding', codecs_.spell(b, len(data) + 1), '--in-format', fa, '--out-format', fb] + opts(data)
            mci_ipm_encode.cli_run(**vars(mci_ipm_encode.cli_parser().parse_args(argv)))   # what cli_entry does with sys.argv
    else:  # mideu convert
        args = ['convert', src, '-s', 'ebcdic' if a == 'cp500' else 'ascii'] + opts(data, '-d' if len(data) % 3 else '-v')
        if fa == 'vbs':
            args.append('--no1014blocking')
        with quiet():
            mideu.cli_entry(args)
        dst = src + '.out'
    with open(dst, 'rb') as f:
        return f.read()


def opts(data, flag='--debug'):
    """the tools' own diagnostic switches are part of how they are run: half of the invocations carry --debug / -d / -v"""
    return [flag] if zlib.crc32(data) % 2 else []


def run_without_output_name(scratch, data, ext, run):
    """the tool chooses the output name itself (no -o): in a directory that holds nothing but the input, exactly one new
    file must appear - wherever the tool puts it - and the input must be left as it was"""
    d = os.path.join(scratch, 'auto')
    shutil.rmtree(d, ignore_errors=True)
    os.makedirs(d)
    # converting a converted file back is the usual second step: its name often already ends in .out
    src = os.path.join(d, 'clearing' + ('.out' if zlib.crc32(data) % 2 else ext))
    with open(src, 'wb') as f:
        f.write(data)
    run(src)
    with open(src, 'rb') as f:
        if f.read() != data:
            raise RuntimeError(f'the tool, run without -o on {os.path.basename(src)}, changed its input file')
    new = [n for n in os.listdir(d) if os.path.join(d, n) != src]
    if len(new) != 1:
        raise RuntimeError(f'the tool, run without -o on {os.path.basename(src)}, left {sorted(new)} beside its input (one output file expected)')
    with open(os.path.join(d, new[0]), 'rb') as f:
        return f.read()


def looks_blocked(data):
    return data[1012:1014] == b'@@' and (len(data) < 2028 or data[2026:2028] == b'@@')


WRITTEN = collections.Counter()


def check_ipm(tool, msgs, a, b, fa, fb, scratch):
    try:
        original = write_ipm(msgs, a, fa)
    except Exception:  # noqa - the statement starts from an existing file; a writer that refuses these messages is C01/C06's business
        WRITTEN['raised'] += 1
        return None
    WRITTEN['ok'] += 1
    desc = f'{tool} {a}/{fa} -> {b}/{fb}, {len(msgs)} records'
    try:
        before = read_ipm(original, a, fa)
        out = run_ipm_tool(tool, original, a, b, fa, fb, scratch)
    except Exception as ex:
        return exc_sig('tool-raises:' + tool, ex), f'{desc}: raised {ex!r} (cause {getattr(ex, "ex", None)!r})'
    try:
        after = read_ipm(out, b, fb)
    except Exception as ex:
        return exc_sig('output-unreadable:' + tool, ex), f'{desc}: output cannot be read under {b}/{fb}: {ex!r}'
    if len(after) != len(before):
        return 'record-count:' + tool, f'{desc}: {len(before)} records in, {len(after)} records out'
    for i, (x, y) in enumerate(zip(before, after)):
        if x != y:
            k = next((k for k in sorted(set(x) | set(y)) if x.get(k) != y.get(k)), '?')
            return 'records-differ:' + tool, f'{desc}: record {i + 1} key {k}: {x.get(k)!r} before, {y.get(k)!r} after conversion'
    try:
        back = run_ipm_tool(tool, out, b, a, fb, fa, scratch)
    except Exception as ex:
        return exc_sig('return-conversion-raises:' + tool, ex), f'{desc}: converting back raised {ex!r}'
    if back != original:
        i = next((i for i in range(min(len(back), len(original))) if back[i] != original[i]), min(len(back), len(original)))
        return 'not-reversible:' + tool, (f'{desc}: converting back gives {len(back)} bytes vs original {len(original)}; first difference at '
                                          f'{i}: {back[i:i + 24]!r} vs {original[i:i + 24]!r}')
    return None


def run_param_tool(tool, data, a, b, fa, fb, scratch):
    if tool == 'mci_ipm_param_encode':
        out = io.BytesIO()
        mci_ipm_param_encode.mci_ipm_param_encode(io.BytesIO(data), out, in_encoding=codecs_.spell(a, len(data)), out_encoding=codecs_.spell(b, len(data) + 1), in_format=fa, out_format=fb,
                                                  **({'debug': True} if zlib.crc32(data) % 4 == 1 else {}))   # cli_run forwards its --debug like this
        return out.getvalue()
    src = os.path.join(scratch, 'in.par')
    dst = os.path.join(scratch, 'out.par')
    with open(src, 'wb') as f:
        f.write(data)
    if tool == 'mci_ipm_param_encode-cli' and zlib.crc32(data) % 3 == 0:
        def run(path):
            with quiet():
                argv = [path, '--in-encoding', codecs_.spell(a, len(data)), '--out-encoding', codecs_.spell(b, len(data) + 1), '--in-format', fa, '--out-format', fb] + opts(data)
                mci_ipm_param_encode.cli_run(**vars(mci_ipm_param_encode.cli_parser().parse_args(argv)))
        return run_without_output_name(scratch, data, '.par', run)
    if tool == 'mci_ipm_param_encode-cli':
        with quiet():
            argv = [src, '-o', dst, '--in-encoding', codecs_.spell(a, len(data)), '--out-encoding', codecs_.spell(b, len(data) + 1), '--in-format', fa, '--out-format', fb] + opts(data)
            mci_ipm_param_encode.cli_run(**vars(mci_ipm_param_encode.cli_parser().parse_args(argv)))
    else:  # paramconv
        args = [src, '-o', dst, '-s', 'ebcdic' if a == 'cp500' else 'ascii'] + opts(data, '-d' if len(data) % 3 else '-v')
        if fa == 'vbs':
            args.append('--no1014blocking')
        with quiet():
            paramconv.cli_entry(args)
    with open(dst, 'rb') as f:
        return f.read()


def check_param(tool, records, a, b, fa, fb, scratch):
    original = mciipm.vbs_list_to_bytes(records, blocked=fa == '1014')
    desc = f'{tool} {a}/{fa} -> {b}/{fb}, {len(records)} records'
    try:
        out = run_param_tool(tool, original, a, b, fa, fb, scratch)
        after = mciipm.vbs_bytes_to_list(out, blocked=fb == '1014')
    except Exception as ex:
        return exc_sig('tool-raises:' + tool, ex), f'{desc}: raised {ex!r}'
    if len(after) != len(records):
        return 'record-count:' + tool, f'{desc}: {len(records)} records in, {len(after)} out'
    for i, (x, y) in enumerate(zip(records, after)):
        if x.decode(a) != y.decode(b):
            return 'records-differ:' + tool, f'{desc}: record {i + 1} text changed: {x.decode(a)[:40]!r} -> {y.decode(b)[:40]!r}'
    try:
        back = run_param_tool(tool, out, b, a, fb, fa, scratch)
    except Exception as ex:
        return exc_sig('return-conversion-raises:' + tool, ex), f'{desc}: converting back raised {ex!r}'
    if back != original:
        return 'not-reversible:' + tool, f'{desc}: converting back gives {len(back)} bytes, original {len(original)}'
    return None


# ---------------------------------------------------------------------------------------------- generators

@st.composite
def ipm_cases(draw):
    a, b = draw(st.sampled_from(PAIRS))
    msgs = []
    raw = draw(st.booleans())
    lookalike = not raw and draw(st.sampled_from([False, False, False, True]))
    for _ in range(draw(uniform(1, 6)) if not lookalike else draw(uniform(2, 4))):
        if raw:
            m = draw(gen_iso.messages(PACKAGED, a, exact=True, pds_mode='none'))
            m = draw(noncanonical_carriers(a, m))
        else:
            m = draw(c06.bounded_message(PACKAGED, a))
            if draw(st.sampled_from([False, False, True])):
                # a long record: several variable elements near their maximum, so that one record spans 2..6 blocks
                for k in draw(st.lists(st.sampled_from(['DE54', 'DE72', 'DE111', 'DE127', 'DE63']), min_size=2, max_size=5, unique=True)):
                    m[k] = draw(gen_iso.tiled_text(a, draw(st.one_of(uniform(600, 999), st.just(999)))))
        if lookalike and len(msgs) < 2:
            # a long run of the 0x40 character across bytes 1012-1013 / 2026-2027: an unblocked file that looks blocked
            m = {'MTI': m['MTI'], 'DE72': 'A' + bytes([0x40]).decode(a) * 996 + 'Z'}
        while len(refcodec.encode(PACKAGED, a, False, m)) > 6000:
            k = max((k for k in m if k != 'MTI'), key=lambda k: len(m[k]) if hasattr(m[k], '__len__') else 0)
            del m[k]
        msgs.append(m)
    return a, b, draw(st.sampled_from(FORMATS)) if not lookalike else 'vbs', draw(st.sampled_from(FORMATS)), msgs, raw


@st.composite
def noncanonical_carriers(draw, codec, msg):
    """raw carrier strings: tags in non-ascending order, optionally one tag twice"""
    carriers = refcodec.pds_carrier_bits(PACKAGED)
    use = draw(st.lists(st.sampled_from(carriers), min_size=1, max_size=3, unique=True))
    out = dict(msg)
    for b in use:
        tags = draw(st.lists(uniform(0, 9999), min_size=1, max_size=6, unique=True))
        order = draw(st.sampled_from(['descending', 'shuffled', 'repeat']))
        if order == 'descending':
            tags = sorted(tags, reverse=True)
        elif order == 'repeat':
            tags = tags + [tags[0]]
        s = ''
        for t in tags:
            v = draw(gen_iso.tiled_text(codec, draw(uniform(0, 30))))
            item = '%04d%03d%s' % (t, len(v), v)
            if len(s) + len(item) <= 999:
                s += item
        out['DE%d' % b] = s
    return out


def hyp_ipm(ctx, n, many=False):
    scratch = tempfile.mkdtemp(prefix='cardutil-verif-c19-')
    try:
        def body(v):
            a, b, fa, fb, msgs, raw = v
            if many:
                # a file of >= 1100 records (the generated ones repeated); `repeat` keeps the replay small
                repeat = -(-1100 // len(msgs))
                ctx.case(key=harness.digest((a, b, fa, fb, msgs, repeat)), nontrivial=True, labels=['ipm-many-records', f'{fa}->{fb}'])
                res = check_ipm('mci_ipm_encode', msgs * repeat, a, b, fa, fb, scratch)
                if res:
                    ctx.fail(res[0], {'kind': 'ipm', 'tool': 'mci_ipm_encode', 'a': a, 'b': b, 'fa': fa, 'fb': fb, 'msgs': msgs, 'repeat': repeat}, res[1])
                return
            nonascii = any(isinstance(x, str) and any(ord(c) > 127 for c in x) for m in msgs for x in m.values())
            binary = any('DE55' in m for m in msgs)
            ctx.case(key=harness.digest((a, b, fa, fb, msgs)), nontrivial=(a != b and (nonascii or binary)) or fa != fb,
                     labels=['ipm', 'class:raw-carriers' if raw else 'class:canonical', f'{a}->{b}', f'{fa}->{fb}',
                             'has-DE55' if binary else 'no-DE55', 'non-ascii-text' if nonascii else 'ascii-text']
                     + (['ipm-unblocked-source-looks-blocked'] if fa == 'vbs' and looks_blocked(refvbs.vbs([refcodec.encode(PACKAGED, a, False, m) for m in msgs])) else []))
            if len(ctx.samples) < 3:
                ctx.sample({'tool': 'mci_ipm_encode / mideu convert', 'from': [a, fa], 'to': [b, fb], 'records': len(msgs), 'first': msgs[0]})
            tools = ['mci_ipm_encode']
            if len(msgs) <= 3:
                tools.append('mci_ipm_encode-cli')
            for tool in tools:
                res = check_ipm(tool, msgs, a, b, fa, fb, scratch)
                if res:
                    ctx.fail(res[0], {'kind': 'ipm', 'tool': tool, 'a': a, 'b': b, 'fa': fa, 'fb': fb, 'msgs': msgs}, res[1])
            if {a, b} == {'cp500', 'latin_1'}:
                ctx.labels['mideu-convert'] += 1
                res = check_ipm('mideu-convert', msgs, a, b, fa, fa, scratch)
                if res:
                    ctx.fail(res[0], {'kind': 'ipm', 'tool': 'mideu-convert', 'a': a, 'b': b, 'fa': fa, 'fb': fa, 'msgs': msgs}, res[1])
        harness.drive(ctx, ipm_cases(), body, n, salt='ipm-many' if many else 'ipm')
    finally:
        shutil.rmtree(scratch, ignore_errors=True)
    ctx.labels['ipm-source-file-written'] += WRITTEN['ok']
    ctx.labels['ipm-source-file-writer-raised'] += WRITTEN['raised']
    WRITTEN.clear()
    if not many:
        ctx.floor('ipm-source-file-written', 0.5, 'ipm')
        ctx.floor('mideu-convert', 0.05, 'ipm')
        ctx.floor('ipm-unblocked-source-looks-blocked', 0.03, 'ipm')
        ctx.floor('class:raw-carriers', 0.15, 'ipm')


def hyp_param(ctx, n, many=False):
    scratch = tempfile.mkdtemp(prefix='cardutil-verif-c19-')
    try:
        strat = st.tuples(st.sampled_from(PAIRS), st.sampled_from(FORMATS), st.sampled_from(FORMATS),
                          st.lists(st.one_of(st.binary(min_size=1, max_size=80),
                                             st.tuples(st.one_of(st.binary(min_size=1, max_size=9), st.just(b'@')), uniform(1, 1100)).map(lambda t: (t[0] * 1100)[:t[1]]),
                                             st.sampled_from([1010, 1100, 2030, 2100]).map(lambda k: b'@' * k),
                                             st.tuples(st.binary(min_size=1, max_size=9),
                                                       st.one_of(uniform(1, 6000), st.sampled_from([1012, 2024, 2025, 3036, 3037, 4048, 6000]))
                                                       ).map(lambda t: (t[0] * 6000)[:t[1]])),
                                   min_size=1, max_size=8))

        def body(v):
            (a, b), fa, fb, records = v
            if many:
                records = [r[:200] for r in records]
                repeat = -(-1100 // len(records))
                ctx.case(key=harness.digest(('p', a, b, fa, fb, records, repeat)), nontrivial=True, labels=['param-many-records', f'{fa}->{fb}'])
                res = check_param('mci_ipm_param_encode', records * repeat, a, b, fa, fb, scratch)
                if res:
                    ctx.fail(res[0], {'kind': 'param', 'tool': 'mci_ipm_param_encode', 'a': a, 'b': b, 'fa': fa, 'fb': fb, 'records': records, 'repeat': repeat}, res[1])
                return
            nonascii = any(any(c > 127 for c in r) for r in records)
            ctx.case(key=harness.digest(('p', a, b, fa, fb, records)), nontrivial=(a != b and nonascii) or fa != fb,
                     labels=['param', f'{a}->{b}', f'{fa}->{fb}']
                     + (['param-unblocked-source-looks-blocked'] if fa == 'vbs' and looks_blocked(refvbs.vbs(records)) else []))
            if len(ctx.samples) < 5:
                ctx.sample({'tool': 'mci_ipm_param_encode / paramconv', 'from': [a, fa], 'to': [b, fb], 'records': [r[:20] for r in records[:3]]})
            for tool in ('mci_ipm_param_encode', 'mci_ipm_param_encode-cli'):
                res = check_param(tool, records, a, b, fa, fb, scratch)
                if res:
                    ctx.fail(res[0], {'kind': 'param', 'tool': tool, 'a': a, 'b': b, 'fa': fa, 'fb': fb, 'records': records}, res[1])
            if {a, b} == {'cp500', 'latin_1'}:
                ctx.labels['paramconv'] += 1
                res = check_param('paramconv', records, a, b, fa, fa, scratch)
                if res:
                    ctx.fail(res[0], {'kind': 'param', 'tool': 'paramconv', 'a': a, 'b': b, 'fa': fa, 'fb': fa, 'records': records}, res[1])
        harness.drive(ctx, strat, body, n, salt='param-many' if many else 'param')
    finally:
        shutil.rmtree(scratch, ignore_errors=True)
    if not many:
        ctx.floor('paramconv', 0.05, 'param')
        ctx.floor('param-unblocked-source-looks-blocked', 0.01, 'param')


def tasks(tier, seed):
    full = tier == 'thorough'
    t = []
    for i in range(12 if not full else 16):
        t.append(('hyp_ipm', dict(n=60 if not full else 400)))
    for i in range(4 if not full else 8):
        t.append(('hyp_param', dict(n=120 if not full else 600)))
    t.append(('hyp_ipm', dict(n=3 if not full else 20, many=True)))
    t.append(('hyp_param', dict(n=3 if not full else 20, many=True)))
    return t


def replay(case):
    scratch = tempfile.mkdtemp(prefix='cardutil-verif-c19-')
    try:
        if case['kind'] == 'ipm':
            return check_ipm(case['tool'], list(case['msgs']) * case.get('repeat', 1), case['a'], case['b'], case['fa'], case['fb'], scratch)
        return check_param(case['tool'], list(case['records']) * case.get('repeat', 1), case['a'], case['b'], case['fa'], case['fb'], scratch)
    finally:
        shutil.rmtree(scratch, ignore_errors=True)
