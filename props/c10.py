"""C10 - A bad record is reported with its own record number and raw bytes."""
import contextlib
import io
import tempfile

from hypothesis import strategies as st

from vlib import harness, gen_iso, codecs_, refcodec, refvbs, mutate
from vlib.harness import where, exc_sig
from vlib.strat import uniform
from props import c09
from cardutil import iso8583, mciipm
from cardutil.cli import print_exception_details

LEVEL = 'fault_enumeration'
EXHAUSTIVE = True
TECHNIQUE = 'fault enumeration: n good records x every position k x 19 fault kinds x {VBS, 1014} x 3 codecs, plus Hypothesis message variety; expected record number and raw bytes derived from an independent framing and decoding of the faulty file'
RULE = ('Files of n = 1..6 (thorough 1..12) good IPM records get one fault planted in record k for every k in 1..n: truncated '
        'record, oversized length (also 6001, 0x40404040, 0x20202020, 0x30303030, 0xf0f0f0f0, 0xffffffff, 0x80000000, 0x7fffffff, little-endian), inflated length, record body cut to 1/4/19/20 bytes, header only, last element cut by 1 / 3 bytes, last variable-length prefix raised by 1 / 9, garbage body, non-numeric MTI, undecodable MTI, unconfigured bitmap bit, non-digit length '
        'prefix, bad integer, bad date, trailing byte, bad PDS content, bad ICC content, negative length prefix; VBS and 1014; '
        'ascii, latin_1, cp500; message shapes enumerated and drawn by Hypothesis. Oracle: the reference framing of the faulty '
        'file + reference decoding of each record gives k and the raw bytes; IpmReader must deliver records 1..k-1 equal to the '
        'reference reading, then raise MciIpmDataError with record_number == k and binary_context_data == 4-byte prefix + record '
        '(framing faults: a prefix of prefix + available bytes that starts with the 4 length bytes); print_exception_details '
        'prints "Error detected in record k". Non-trivial = k > 1 or a message-level fault; distinct by digest of the file.')
ASSUMPTIONS = ['records are pulled with one iterator or with iter(reader) renewed before a record (next() then a for loop, a loop resumed after break); the style is a function of the file length',
               'the expected position comes from where the reference framing finds the first fault, not from where it was planted (an inflated prefix in a blocked file swallows terminator and fill and becomes a fault of that same record)',
               'records whose only deviation is a don\'t-care numeral (accepted by the lenient reference) are skipped']

PACKAGED = gen_iso.packaged_config()
CODECS = ['ascii', 'latin_1', 'cp500']
KINDS = ['truncated', 'oversized-length', 'inflated-length', 'mti-nonnumeric', 'mti-undecodable', 'unconfigured-bit',
         'nondigit-prefix', 'bad-int', 'bad-date', 'trailing-byte', 'bad-pds', 'bad-icc', 'negative-prefix',
         'short-body-1', 'short-body-4', 'short-body-19', 'short-body-20', 'header-only', 'garbage-body',
         'length-max+1', 'length-40404040', 'length-20202020', 'length-30303030', 'length-f0f0f0f0', 'length-ffffffff',
         'length-80000000', 'length-7fffffff', 'length-little-endian',
         'cut-last-byte', 'cut-last-3', 'last-var-prefix+1', 'last-var-prefix+9']


def base_message(i):
    import datetime
    m = {'MTI': '%04d' % (1100 + i * 111 % 800), 'DE2': '5' * (13 + i % 7), 'DE3': '%06d' % (i * 37), 'DE4': 100 + i,
         'DE12': datetime.datetime(2001 + i, 1 + i % 12, 1 + i % 28, i % 24, 5, 9), 'DE26': 5411 + i,
         'PDS0023': 'NA%d' % i, 'PDS0148': '9782', 'DE55': b'\x9f\x26\x02\xaa' + bytes([i]) + b'\x82\x02\x18\x00', 'DE71': i + 1}
    if i % 2:
        m['DE43'] = 'SHOP %d  \\1 MAIN ST\\TOWN\\4000      QLDAUS' % i
    if i % 3 == 0:
        m['DE72'] = 'free text %d ' % i * (1 + i % 40)
    return m


DECOY_FILE = refvbs.vbs([refcodec.encode(PACKAGED, 'latin_1', False, base_message(i)) for i in range(40)])


def plant(kind, rec, codec, config):
    """returns (new record bytes, new prefix int or None, truncate_after:int or None) or None if not applicable"""
    frames = mutate.frames_of(config, codec, False, rec)
    by = {}
    for f in frames:
        by.setdefault((f[0], f[1]), f)
    r = bytearray(rec)
    if kind == 'truncated':
        return bytes(rec), None, max(1, len(rec) // 2)
    if kind == 'oversized-length':
        return bytes(rec), 6001 + len(rec), None
    if kind.startswith('length-'):
        # particular unframeable length values: the maximum + 1, block fill / blanks / character zeros where the
        # binary length belongs, the sign bit, the length written little-endian
        what = kind[len('length-'):]
        if what == 'max+1':
            return bytes(rec), 6001, None
        if what == 'little-endian':
            return bytes(rec), int.from_bytes(len(rec).to_bytes(4, 'little'), 'big'), None
        return bytes(rec), int(what, 16), None
    if kind in ('cut-last-byte', 'cut-last-3'):
        # a correctly framed record whose last element is short of what its width / prefix says (the elements overrun the record)
        n = 1 if kind == 'cut-last-byte' else 3
        return (bytes(rec[:-n]), None, None) if len(rec) > 24 + n else None
    if kind.startswith('last-var-prefix+'):
        lens = [f for f in frames if f[0] == 'len']
        if not lens:
            return None
        _, _, s0, e0 = max(lens, key=lambda f: f[2])
        try:
            cur = int(bytes(r[s0:e0]).decode(codec))
        except ValueError:
            return None
        new = cur + int(kind.split('+')[1])
        if new >= 10 ** (e0 - s0):
            return None
        r[s0:e0] = str(new).zfill(e0 - s0).encode(codec)
        return bytes(r), None, None
    if kind == 'inflated-length':
        return bytes(rec), len(rec) + 3, None
    if kind == 'mti-nonnumeric':
        r[1:2] = 'X'.encode(codec)
        return bytes(r), None, None
    if kind == 'mti-undecodable':
        bad = codecs_.undecodable_bytes(codec)
        if not bad:
            return None
        r[2] = bad[0]
        return bytes(r), None, None
    if kind == 'unconfigured-bit':
        free = [b for b in range(2, 128) if str(b) not in config]
        if not free:
            return None
        return mutate.apply(rec, [('bit', free[len(rec) % len(free)])], frames, codec, False), None, None
    if kind in ('nondigit-prefix', 'negative-prefix'):
        lens = [f for f in frames if f[0] == 'len']
        if not lens:
            return None
        _, _, s, e = lens[len(rec) % len(lens)]
        r[s:s + 1] = ('x' if kind == 'nondigit-prefix' else '-').encode(codec)
        return bytes(r), None, None
    if kind == 'bad-int':
        f = next((f for f in frames if f[0] == 'value' and config[str(f[1])].get('field_python_type') in ('int', 'long')), None)
        if not f:
            return None
        r[f[2]:f[2] + 1] = 'A'.encode(codec)
        return bytes(r), None, None
    if kind == 'bad-date':
        f = next((f for f in frames if f[0] == 'value' and config[str(f[1])].get('field_python_type') == 'datetime'), None)
        if not f:
            return None
        r[f[2]:f[3]] = ('9' * (f[3] - f[2])).encode(codec)
        return bytes(r), None, None
    if kind == 'trailing-byte':
        return bytes(rec) + b'7', None, None
    if kind.startswith('short-body-'):
        # a correctly framed record that is too short to hold MTI + bitmap (20 bytes: a header with a lying bitmap)
        return bytes(rec[:int(kind.split('-')[-1])]), None, None
    if kind == 'header-only':
        return bytes(rec[:20]), None, None
    if kind == 'garbage-body':
        return bytes((b * 7 + 13) % 256 for b in rec), None, None
    if kind == 'bad-pds':
        f = next((f for f in frames if f[0] == 'pds_len'), None)
        if not f:
            return None
        r[f[2]:f[3]] = 'xyz'.encode(codec)
        return bytes(r), None, None
    if kind == 'bad-icc':
        f = next((f for f in frames if f[0] == 'value' and config[str(f[1])].get('field_processor') == 'ICC'), None)
        if not f or f[3] - f[2] < 4:
            return None
        n = f[3] - f[2]
        body = bytearray()
        while n - len(body) > 206:
            body += b'\x82\xc8' + b'\x11' * 200           # whole TLVs
        rem = n - len(body)
        body += b'\x84' + bytes([rem - 3]) + b'\x22' * (rem - 3) + b'\x95'   # ... then a lone tag with no length byte
        r[f[2]:f[3]] = body
        return bytes(r), None, None
    raise ValueError(kind)


def build_file(records, k, planted, blocked):
    """records: list of good record bytes; planted = (bytes, prefix, truncate)"""
    rec, prefix, trunc = planted
    stream = bytearray()
    for i, r in enumerate(records, 1):
        if i == k:
            p = prefix if prefix is not None else len(rec)
            stream += p.to_bytes(4, 'big') + rec
            if trunc is not None:
                del stream[len(stream) - (len(rec) - trunc):]
                break
        else:
            stream += len(r).to_bytes(4, 'big') + r
    else:
        stream += b'\x00\x00\x00\x00'
    return refvbs.block(bytes(stream)) if blocked else bytes(stream)


def expectation(data, blocked, codec, config):
    """what the reference framing + decoding of the file says.
    returns (entries, tail): entries = [('good', values) | ('maybe', raw) | ('bad', raw)] up to and including the first
    'bad'; tail = None | ('framing', available_raw) when the bytes after the last complete record cannot be framed.
    'maybe' = the strict reference rejects the record but the lenient one reads it (don't-care content such as a ragged
    PDS carrier or malformed TLV data): the reader may deliver it or refuse it, but a refusal must carry its number."""
    payload = refvbs.payload_of(data) if blocked else data
    records, ending, info = refvbs.complete_records(payload)
    entries = []
    for r in records:
        raw = len(r).to_bytes(4, 'big') + r
        s = refcodec.decode(config, codec, False, r, strict=True)
        if s.ok:
            entries.append(('good', s.values))
            continue
        l = refcodec.decode(config, codec, False, r, strict=False)
        if l.ok:
            entries.append(('maybe', raw))
            continue
        entries.append(('bad', raw))
        return entries, None
    if ending in ('short', 'toolong'):
        return entries, ('framing', b''.join(info))
    return entries, None


def first_fault(entries, tail):
    for i, (kind, _) in enumerate(entries, 1):
        if kind in ('bad', 'maybe'):
            return ('message' if kind == 'bad' else 'maybe-message'), i
    if tail:
        return 'framing', len(entries) + 1
    return None


def verify_error(err, k, kind, raw, form, codec):
    if err.record_number != k:
        return f'wrong-record-number:{kind}', (f'{form}/{codec}: record {k} is the faulty one ({kind} fault) but the error says '
                                               f'record_number == {err.record_number!r}')
    ctxd = err.binary_context_data
    if kind == 'message':
        if ctxd != raw:
            return 'context:message', (f'{form}: context data of the error for record {k} is not prefix + record bytes: got '
                                       f'{None if ctxd is None else ctxd[:24]!r}... ({None if ctxd is None else len(ctxd)} bytes), expected {raw[:24]!r}... ({len(raw)} bytes)')
    else:
        if not isinstance(ctxd, (bytes, bytearray)) or len(ctxd) < 4 or not raw.startswith(bytes(ctxd)):
            return 'context:framing', (f'{form}: context data for the unframeable record {k} is {None if ctxd is None else bytes(ctxd[:24])!r}, '
                                       f'expected a prefix of {raw[:24]!r} starting with the 4 length bytes')
    sink = io.StringIO()
    with contextlib.redirect_stdout(sink):
        print_exception_details(err)
    if f'Error detected in record {k}\n' not in sink.getvalue():
        return 'operator-message', f'print_exception_details does not print "Error detected in record {k}"'
    return None


def check(data, blocked, codec, config, default_cfg):
    entries, tail = expectation(data, blocked, codec, config)
    kw = dict(encoding=codec, blocked=blocked)
    if not default_cfg:
        kw['iso_config'] = config
    # the source: in memory, a read-only stream without seek/tell, a real file opened by name (`.name` is the path) or
    # from a descriptor (`.name` is an integer)
    how = (len(data) // 3) % 8
    closer = None
    if how == 5:
        src = c09.Pipe(data)
    elif how in (6, 7):
        closer = src = tempfile.NamedTemporaryFile(prefix='cardutil-verif-c10-') if how == 6 else tempfile.TemporaryFile(prefix='cardutil-verif-c10-')
        src.write(data)
        src.flush()
        src.seek(0)
    else:
        src = io.BytesIO(data)
    try:
        res = _check(data, blocked, codec, entries, tail, kw, src)
    finally:
        if closer is not None:
            closer.close()
    if res and how >= 5:
        return res[0], res[1] + ' [source: %s]' % ('read-only stream', 'file opened by name', 'file opened from a descriptor')[how - 5]
    return res


def _check(data, blocked, codec, entries, tail, kw, src):
    form = '1014' if blocked else 'vbs'
    try:
        raw_reader = mciipm.IpmReader(src, **kw)
    except Exception as ex:  # noqa - opening a reader delivers nothing; the records before the fault are still due
        return exc_sig('reader-refuses-file', ex), f'{form}: IpmReader(...) raised {ex!r} before any record was read'
    # consumption style: one iterator, or a fresh `iter(reader)` before every record (as in: skip a header with next(), then a
    # for loop; or a loop left with break and resumed) - the reader is its own iterator, so both must behave alike
    style = len(data) % 3
    state = {'it': iter(raw_reader), 'n': 0}

    # a second reader over another (good) file is advanced in between (two files open at once): each counts its own records
    decoy = iter(mciipm.IpmReader(io.BytesIO(DECOY_FILE), encoding='latin_1')) if len(data) % 2 else None

    def step():
        if decoy is not None:
            try:
                next(decoy)
            except StopIteration:
                pass
            except Exception as ex:  # noqa - the second file is well-formed throughout
                return 'decoy', ex
        if style == 1 or (style == 2 and state['n'] % 2 == 1):
            state['it'] = iter(raw_reader)
        state['n'] += 1
        reader = state['it']
        try:
            return 'rec', next(reader)
        except StopIteration:
            return 'end', None
        except mciipm.MciIpmDataError as ex:
            return 'err', ex
        except Exception as ex:  # noqa
            return 'crash', ex

    for i, (kind, payload) in enumerate(entries, 1):
        what, val = step()
        if what == 'decoy':
            return 'spurious-error:second-reader', f'a second reader over a well-formed file, advanced in between, raised {val!r} (cause {getattr(val, "ex", None)!r})'
        if what == 'crash':
            return f'wrong-exception:{type(val).__name__}@{where(val)}', f'IpmReader raised {val!r} instead of the library error at record {i}'
        if what == 'end':
            return f'ended-early:{kind}', f'{form}: iteration ended before record {i} of {len(entries)} complete records'
        if what == 'err':
            if kind == 'good':
                return 'spurious-error', f'{form}: record {i} is well-formed but the reader raised {val!r} (cause {getattr(val, "ex", None)!r})'
            return verify_error(val, i, 'message', payload, form, codec)
        if kind == 'bad':
            return 'no-error:message', f'{form}: record {i} cannot be decoded but was delivered as {str(val)[:200]}'
        if kind == 'good':
            why = refcodec.compare(payload, val, set())
            if why:
                return 'delivered-differs', f'{form}: record {i} delivered before the fault differs from the reference reading: {why}'
    what, val = step()
    if what == 'decoy':
        return 'spurious-error:second-reader', f'a second reader over a well-formed file, advanced in between, raised {val!r} (cause {getattr(val, "ex", None)!r})'
    if what == 'crash':
        return f'wrong-exception:{type(val).__name__}@{where(val)}', f'IpmReader raised {val!r} instead of the library error after {len(entries)} records'
    if tail:
        if what != 'err':
            return 'no-error:framing', f'{form}: record {len(entries) + 1} cannot be framed but iteration gave {what} instead of the library error'
        return verify_error(val, len(entries) + 1, 'framing', tail[1], form, codec)
    if what == 'rec':
        return 'invented-record', f'{form}: a record was delivered after the {len(entries)} complete records of the file'
    if what == 'err':
        return 'spurious-error', f'{form}: file without fault: {val!r} after {len(entries)} records'
    return None


def run_case(ctx, records, k, kind, blocked, codec, config, default_cfg, case, hyp=False):
    planted = plant(kind, records[k - 1], codec, config)
    if planted is None:
        ctx.labels['kind-not-applicable:' + kind] += 1
        return
    data = build_file(records, k, planted, blocked)
    res = check(data, blocked, codec, config, default_cfg)
    entries, tail = expectation(data, blocked, codec, config)
    fault = first_fault(entries, tail)
    nt = fault is not None and (fault[1] > 1 or fault[0] != 'framing')
    ctx.case(key=harness.digest((data, blocked, codec)), nontrivial=nt,
             labels=['kind:' + kind, 'expected:' + (fault[0] if fault else 'none'), 'form:' + ('1014' if blocked else 'vbs'), 'codec:' + codec]
             + (['fault-not-in-last-record'] if fault and fault[1] < len(records) else []))
    if res:
        if hyp:
            ctx.fail(res[0], case, res[1])
        else:
            ctx.report(res[0], case, res[1])


def enumerate_faults(ctx, nmax, codec):
    for n in range(1, nmax + 1):
        records = [refcodec.encode(PACKAGED, codec, False, base_message(i)) for i in range(n)]
        for k in range(1, n + 1):
            for kind in KINDS:
                for blocked in (False, True):
                    run_case(ctx, records, k, kind, blocked, codec, PACKAGED, True,
                             {'base': n, 'k': k, 'kind': kind, 'blocked': blocked, 'codec': codec})
    ctx.enumerated(f'n = 1..{nmax} records x every k in 1..n x {len(KINDS)} fault kinds x {{VBS, 1014}}, codec {codec}')
    if codec == 'latin_1':
        ctx.sample({'n_records': 3, 'k': 2, 'kind': 'bad-date', 'blocked': True, 'codec': codec})
        ctx.sample({'n_records': 4, 'k': 3, 'kind': 'inflated-length', 'blocked': False, 'codec': codec})


def hyp_faults(ctx, n):
    @st.composite
    def cases(draw):
        codec = draw(st.sampled_from(CODECS + ['cp1252', 'cp037']))
        gen = draw(st.sampled_from([False, False, True]))
        config = draw(gen_iso.configs(max_bits=10, kinds=gen_iso.KINDS + ['pds', 'icc', 'fixed_datetime', 'fixed_int'])) if gen else PACKAGED
        nrec = draw(uniform(1, 6))
        msgs = [draw(gen_iso.messages(config, codec, exact=False, pds_mode='keys', min_elements=1, rich=True)) for _ in range(nrec)]
        k = draw(uniform(1, nrec))
        kind = draw(st.sampled_from(KINDS))
        blocked = draw(st.booleans())
        return config, gen, codec, msgs, k, kind, blocked

    def body(v):
        config, gen, codec, msgs, k, kind, blocked = v
        records = [refcodec.encode(config, codec, False, m) for m in msgs]
        if any(len(r) > 6000 for r in records):
            return
        run_case(ctx, records, k, kind, blocked, codec, config, not gen,
                 {'config': config if gen else None, 'codec': codec, 'records': records, 'k': k, 'kind': kind, 'blocked': blocked}, hyp=True)
    harness.drive(ctx, cases(), body, n, salt='faults')


def tasks(tier, seed):
    full = tier == 'thorough'
    t = []
    for codec in CODECS:
        t.append(('enumerate_faults', dict(nmax=6 if not full else 12, codec=codec)))
    for i in range(5 if not full else 13):
        t.append(('hyp_faults', dict(n=120 if not full else 1500)))
    return t


def replay(case):
    if 'base' in case:
        codec = case['codec']
        records = [refcodec.encode(PACKAGED, codec, False, base_message(i)) for i in range(case['base'])]
        config, default = PACKAGED, True
    else:
        codec = case['codec']
        records = list(case['records'])
        config = case['config'] or PACKAGED
        default = case['config'] is None
    planted = plant(case['kind'], records[case['k'] - 1], codec, config)
    if planted is None:
        return None
    data = build_file(records, case['k'], planted, case['blocked'])
    return check(data, case['blocked'], codec, config, default)
