"""atheris tier of C07/C08 (thorough only) - filled in below."""


def tasks(seed):
    return []
