"""atheris (coverage-guided, libFuzzer) tier for C07 and C08 - thorough tier only.

Each shard is a subprocess running props/fuzz_target.py. The oracle sits inside the target; a disagreement is
appended to a findings file and fuzzing continues (libFuzzer would otherwise stop at the first one). Afterwards every
finding and every libFuzzer artifact (crash-*, timeout-*) is re-run through the plain replay path of the property and
reported only if it fails there. If atheris cannot be imported the shard records that and does nothing else."""
import json
import os
import shutil
import subprocess
import sys
import tempfile

from vlib import harness, gen_iso, refcodec
from vlib.repo import REPO

HERE = os.path.dirname(os.path.abspath(__file__))
DEPS = os.path.join(os.path.dirname(HERE), '.deps')


def have_atheris():
    if DEPS not in sys.path and os.path.isdir(DEPS):
        sys.path.append(DEPS)
    try:
        import atheris  # noqa: F401
        return True
    except Exception:  # noqa
        return False


def seed_corpus(dirname, n=40):
    """generator-made valid messages, each prefixed with the selector byte the target expects"""
    import datetime
    cfg = gen_iso.packaged_config()
    i = 0
    for codec_i, codec in enumerate(SELECT_CODECS):
        for hexbm in (0, 1):
            msgs = [
                {'MTI': '1144', 'DE2': '4444555566667777', 'DE3': '123456', 'DE4': 1299, 'DE12': datetime.datetime(2024, 2, 29, 23, 59, 58)},
                {'MTI': '1240', 'PDS0023': 'NA', 'PDS0148': '9782', 'PDS0165': 'M' + 'x' * 20, 'DE71': 1},
                {'MTI': '1442', 'DE55': b'\x9f\x26\x08\x01\x02\x03\x04\x05\x06\x07\x08\x82\x02\x18\x00\x5f\x2a\x02\x09\x78',
                 'DE43': 'SHOP  \\1 MAIN ST\\TOWN\\4000      QLDAUS', 'DE48': '0002003abc0001001Y'},
                {'MTI': '1644', 'DE72': 'free text ' * 9, 'DE127': 'n', 'DE100': '12345678901'},
            ]
            for m in msgs:
                data = refcodec.encode(cfg, codec, bool(hexbm), m)
                sel = bytes([(codec_i << 2) | (hexbm << 1) | 0])
                with open(os.path.join(dirname, 'seed-%03d' % i), 'wb') as f:
                    f.write(sel + data)
                i += 1
                if i >= n:
                    return i
    return i


SELECT_CODECS = ['latin_1', 'cp500', 'ascii', 'cp1252', 'cp864', 'cp037']


def fuzz_shard(ctx, prop, shard, seconds, corpus, mode):
    if not have_atheris():
        ctx.note('atheris is not importable: coverage-guided tier skipped')
        ctx.labels['atheris-skipped'] += 1
        return
    work = tempfile.mkdtemp(prefix='cardutil-verif-fuzz-')
    try:
        cdir = os.path.join(work, 'corpus')
        os.makedirs(cdir)
        if corpus == 'valid':
            seed_corpus(cdir)
        findings = os.path.join(work, 'findings.jsonl')
        stats = os.path.join(work, 'stats.json')
        env = dict(os.environ, PYTHONPATH=os.pathsep.join([os.path.dirname(HERE), DEPS]), VERIF_REPO=REPO,
                   FUZZ_FINDINGS=findings, FUZZ_STATS=stats, FUZZ_PROP=prop, FUZZ_MODE=mode, PYTHONDONTWRITEBYTECODE='1')
        cmd = [sys.executable, os.path.join(HERE, 'fuzz_target.py'), cdir, f'-max_total_time={seconds}', '-timeout=10',
               f'-seed={harness.derive_seed(ctx.seed, prop, shard) % 2 ** 31 or 1}', f'-artifact_prefix={work}/art-',
               '-max_len=700', '-print_final_stats=1', '-verbosity=0', '-rss_limit_mb=4096']
        p = subprocess.run(cmd, env=env, capture_output=True, text=True, timeout=seconds + 300)
        execs = 0
        for line in p.stderr.splitlines():
            if 'stat::number_of_executed_units' in line:
                execs = int(line.split(':')[-1].strip())
        st = {}
        if os.path.exists(stats):
            with open(stats) as f:
                st = json.load(f)
        if not execs:
            execs = st.get('execs', 0)
        if execs == 0:
            raise harness.HarnessError(f'atheris shard produced no executions: rc={p.returncode} {p.stderr[-600:]}')
        ctx.evaluations += execs
        ctx.labels[f'atheris-{mode}-executions'] += execs
        ctx.labels[f'atheris-{mode}-{corpus}-corpus-shards'] += 1
        ctx.labels['atheris-inputs-past-header'] += st.get('past_header', 0)
        for d in st.get('nontrivial_digests', []):
            ctx.nontrivial.add(bytes.fromhex(d))
        for s in st.get('samples', [])[:2]:
            ctx.sample({'atheris_input': s, 'mode': mode})
        # candidates: in-target findings and libFuzzer artifacts; both are confirmed through the plain replay path
        import importlib
        mod = importlib.import_module('props.' + prop.lower())
        cands = []
        if os.path.exists(findings):
            with open(findings) as f:
                for line in f:
                    cands.append(harness.dec(json.loads(line)))
        for name in os.listdir(work):
            if name.startswith('art-'):
                with open(os.path.join(work, name), 'rb') as f:
                    raw = f.read()
                if mode == 'raw' and raw:
                    cands.append(case_from_bytes(raw))
        ctx.labels['atheris-candidates'] += len(cands)
        for case in cands:
            res = mod.replay(case)
            if res:
                ctx.report(res[0], case, res[1] + ' [found by atheris]')
    finally:
        shutil.rmtree(work, ignore_errors=True)


def case_from_bytes(raw):
    sel = raw[0]
    codec = SELECT_CODECS[(sel >> 2) % len(SELECT_CODECS)]
    hexbm = bool((sel >> 1) & 1)
    cfgsel = sel & 1
    return {'entry': 'loads', 'config': None if not cfgsel else ALT_CONFIG, 'codec': codec, 'hex': hexbm, 'data': raw[1:]}


ALT_CONFIG = {
    '2': {'field_type': 'LLVAR', 'field_length': 0, 'field_processor': 'PAN'},
    '3': {'field_type': 'FIXED', 'field_length': 6, 'field_python_type': 'int'},
    '4': {'field_type': 'FIXED', 'field_length': 8, 'field_python_type': 'decimal'},
    '5': {'field_type': 'FIXED', 'field_length': 8, 'field_python_type': 'datetime', 'field_date_format': '%Y%m%d'},
    '6': {'field_type': 'LLVAR', 'field_length': 0, 'field_python_type': 'int'},
    '7': {'field_type': 'LLLVAR', 'field_length': 0, 'field_processor': 'PDS'},
    '8': {'field_type': 'LLVAR', 'field_length': 255, 'field_processor': 'ICC'},
    '9': {'field_type': 'LLVAR', 'field_length': 0, 'field_processor': 'DE43', 'field_processor_config': gen_iso.PACKAGED_DE43},
    '64': {'field_type': 'LLLVAR', 'field_length': 0},
    '65': {'field_type': 'FIXED', 'field_length': 3},
    '127': {'field_type': 'LLLVAR', 'field_length': 255, 'field_processor': 'ICC'},
}


def tasks(seed, prop='C07'):
    t = []
    if prop == 'C07':
        for shard in range(12):
            t.append(('fuzz_shard', dict(prop='C07', shard=shard, seconds=90, corpus='valid' if shard % 3 else 'empty', mode='raw')))
        for shard in range(12, 16):
            t.append(('fuzz_shard', dict(prop='C07', shard=shard, seconds=90, corpus='empty', mode='hyp')))
    else:
        for shard in range(6):
            t.append(('fuzz_shard', dict(prop='C08', shard=shard, seconds=60, corpus='valid' if shard % 3 else 'empty', mode='raw')))
        for shard in range(6, 8):
            t.append(('fuzz_shard', dict(prop='C08', shard=shard, seconds=60, corpus='empty', mode='hyp')))
    return t
