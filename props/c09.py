"""C09 - A file cut short at any byte yields only its complete records, then stops/errors."""
import io
import tempfile

from hypothesis import strategies as st

from vlib import harness, refvbs
from vlib.strat import uniform
from vlib.harness import exc_sig
from cardutil import mciipm, iso8583
from props import c03

LEVEL = 'fault_enumeration'
EXHAUSTIVE = True
TECHNIQUE = 'Hypothesis-generated files x exhaustive truncation offsets, against an independent walk of the surviving bytes'
RULE = ('VBS, 1014-blocked VBS and IPM files (1..12 records, lengths biased to 1004..1016 / 2020..2028 so prefixes and '
        'record ends straddle block edges) are generated; every truncation offset 0..len(file) of each is read with '
        'VbsReader / IpmReader (and, for VBS data, vbs_bytes_to_list). Oracle: the reference walk of the surviving payload gives the complete records; the reader '
        'must yield exactly those, in order, then end or raise MciIpmDataError. Non-trivial = a cut strictly inside the '
        'file; distinct by (file digest, offset).')
ASSUMPTIONS = ['either ending (clean end or MciIpmDataError) is accepted at every offset',
               'the truncated data arrives as an in-memory file or (every third offset) as a read-only, non-seekable stream',
               'IPM records are compared with iso8583.loads of the reference-framed record bytes (framing is the subject here; decoding is C01/C02)']

ENCODINGS = ['latin_1', 'cp500']


class Pipe:
    """a stream that can only be read (like a pipe or stdin): no seek, no tell"""

    def __init__(self, data):
        self._f = io.BytesIO(data)

    def read(self, n=-1):
        return self._f.read(n)


def read_all(reader, limit):
    items = []
    try:
        for rec in reader:
            items.append(rec)
            if len(items) > limit:
                return items, 'runaway'
    except mciipm.MciIpmDataError:
        return items, 'data-error'
    except Exception as ex:
        return items, ex
    return items, 'end'


def check_cut(data, cut, blocked, ipm_encoding=None):
    part = data[:cut]
    # a third of the cuts arrive over a non-seekable stream; some over real operating-system files: opened by name
    # (`.name` is the path) and opened from a descriptor (`.name` is an integer, as for pipes, sockets and TemporaryFile)
    src = closer = None
    if cut % 3 == 1:
        src = Pipe(part)
    elif cut % 12 in (5, 11):
        closer = src = tempfile.NamedTemporaryFile(prefix='cardutil-verif-c09-') if cut % 12 == 5 else tempfile.TemporaryFile(prefix='cardutil-verif-c09-')
        src.write(part)
        src.flush()
        src.seek(0)
    else:
        src = io.BytesIO(part)
    try:
        return _check_cut(data, cut, blocked, ipm_encoding, part, src)
    finally:
        if closer is not None:
            closer.close()


def _check_cut(data, cut, blocked, ipm_encoding, part, src):
    payload = refvbs.payload_of(part) if blocked else part
    want, ending, _ = refvbs.complete_records(payload)
    try:
        if ipm_encoding:
            reader = mciipm.IpmReader(src, encoding=ipm_encoding, blocked=blocked)
        else:
            reader = mciipm.VbsReader(src, blocked=blocked)
    except mciipm.MciIpmDataError:
        got, how = [], 'data-error'          # refused on opening: nothing was delivered
    except Exception as ex:  # noqa
        got, how = [], ex
    else:
        got, how = read_all(reader, len(want) + 2)
    form = ('ipm-' if ipm_encoding else 'vbs-') + ('1014' if blocked else 'plain')
    if not isinstance(src, (Pipe, io.BytesIO)):
        form += ':os-file(name=%s)' % type(getattr(src, 'name', None)).__name__
    if isinstance(how, Exception):
        return exc_sig('exception:' + form, how), f'{form} file of {len(data)} bytes cut at {cut}: {how!r} after {len(got)} records'
    if how == 'runaway':
        return 'invented-records:' + form, f'{form} file cut at {cut}: more than {len(want)} records delivered'
    if ipm_encoding:
        want = [iso8583.loads(r, encoding=ipm_encoding) for r in want]
    if not ipm_encoding and cut % 2 == 0:
        # the list convenience function is a reader too: it may raise the library error, otherwise it must return exactly the
        # complete records (called with the default arguments when the data is unblocked)
        for kw in ([{}, {'blocked': False}] if not blocked else [{'blocked': True}]):
            try:
                lst = mciipm.vbs_bytes_to_list(part, **kw)
            except mciipm.MciIpmDataError:
                continue
            except Exception as ex:  # noqa
                return exc_sig('exception:vbs_bytes_to_list:' + form, ex), f'vbs_bytes_to_list({kw}) on a {form} file cut at {cut}: {ex!r}'
            if lst != want:
                return 'convenience-function-differs:' + form, (f'vbs_bytes_to_list({kw}) on a {form} file of {len(data)} bytes cut at {cut} returned '
                                                                 f'{len(lst)} records (last {len(lst[-1]) if lst else 0} bytes), {len(want)} complete records survive')
    if got != want:
        kind = 'missing' if len(got) < len(want) else ('invented' if len(got) > len(want) else 'altered')
        return f'{kind}-records:{form}', (f'{form} file of {len(data)} bytes cut at {cut}: {len(want)} complete records survive, '
                                          f'reader delivered {len(got)} then {how}' + ('' if ipm_encoding else c03._diff_records(want, got)))
    return None


def classify(data, cut, blocked, bounds):
    if cut == len(data):
        return 'cut:none'
    if blocked:
        if cut % 1014 == 0:
            return 'cut:block-edge'
        if cut % 1014 >= 1012:
            return 'cut:inside-trailer'
        pos = cut // 1014 * 1012 + cut % 1014
    else:
        pos = cut
    for (p0, p1, r1) in bounds:
        if p0 <= pos < p1:
            return 'cut:inside-prefix'
        if p1 <= pos < r1:
            return 'cut:inside-record'
    return 'cut:terminator-or-fill'


def sweep_file(ctx, records, blocked, ipm_encoding, spec):
    stream = refvbs.vbs(records)
    data = refvbs.block(stream) if blocked else stream
    bounds = []
    p = 0
    for r in records:
        bounds.append((p, p + 4, p + 4 + len(r)))
        p += 4 + len(r)
    fid = harness.digest(data)
    for cut in range(len(data) + 1):
        res = check_cut(data, cut, blocked, ipm_encoding)
        ctx.labels[classify(data, cut, blocked, bounds)] += 1
        if res:
            ctx.report(res[0], {'spec': spec, 'blocked': blocked, 'ipm': ipm_encoding, 'cut': cut}, res[1])
    ctx.bulk(len(data) + 1, nontrivial_distinct=0)
    return fid, len(data)


LEN = st.one_of(st.sampled_from([1, 2, 3, 4, 5, 1000, 1004, 1007, 1008, 1009, 1011, 1012, 1013, 1016, 2020, 2024, 2028]),
                uniform(1, 80), uniform(1, 2100))
REC = st.tuples(LEN, st.sampled_from(['pos', 'zero', 'fill', 'prefix', 'rand']), st.binary(min_size=1, max_size=7))


def vbs_files(ctx, n, max_total):
    seen = set()

    def body(v):
        spec, blocked = v
        total = 0
        keep = []
        for s in spec:
            if total + s[0] + 4 > max_total:
                break
            keep.append(s)
            total += s[0] + 4
        if not keep:
            keep = [(min(spec[0][0], max_total - 8), spec[0][1], spec[0][2])]
        records = c03.build(keep)
        fid, size = sweep_file(ctx, records, blocked, None, keep)
        if fid not in seen:
            seen.add(fid)
            ctx.nontrivial_by_construction += size - 1
        ctx.labels['files:vbs-1014' if blocked else 'files:vbs-plain'] += 1
        if len(ctx.samples) < 3:
            ctx.sample({'form': 'vbs-1014' if blocked else 'vbs', 'record_lengths': [k[0] for k in keep], 'cuts': f'every offset 0..{size}'})
    # the body only collects (ctx.report), it never raises: each generated file is swept completely
    harness.drive(ctx, st.tuples(st.lists(REC, min_size=1, max_size=12), st.booleans()), body, n, salt='vbs-files')
    ctx.enumerated('every truncation offset 0..len(file) of each generated VBS / blocked file')


def simple_message(i, var):
    m = {'MTI': '%04d' % (1000 + i % 9000), 'DE2': '5' * (8 + var % 12), 'DE3': '%06d' % (i * 7 % 1000000)}
    if var % 3:
        m['DE48'] = ('%04d' % (var % 10000)) + '%03d' % (var % 200) + 'x' * (var % 200)
    if var % 2:
        m['DE72'] = 'T' * (var % 990 + 1)
    return m


def ipm_files(ctx, n, max_total):
    seen = set()

    def body(v):
        vars_, blocked, enc = v
        records = []
        total = 0
        for i, var in enumerate(vars_):
            r = iso8583.dumps(simple_message(i, var), encoding=enc)
            if total + len(r) + 4 > max_total and records:
                break
            records.append(r)
            total += len(r) + 4
        fid, size = sweep_file(ctx, records, blocked, enc, {'ipm_vars': vars_})
        if fid not in seen:
            seen.add(fid)
            ctx.nontrivial_by_construction += size - 1
        ctx.labels['files:ipm-1014' if blocked else 'files:ipm-plain'] += 1
        if len(ctx.samples) < 5:
            ctx.sample({'form': 'ipm-1014' if blocked else 'ipm', 'encoding': enc, 'record_lengths': [len(r) for r in records], 'cuts': f'every offset 0..{size}'})
    harness.drive(ctx, st.tuples(st.lists(uniform(0, 5000), min_size=1, max_size=8), st.booleans(),
                                 st.sampled_from(ENCODINGS)), body, n, salt='ipm-files')
    ctx.enumerated('every truncation offset 0..len(file) of each generated IPM file')


def tasks(tier, seed):
    t = []
    if tier == 'quick':
        for i in range(11):
            t.append(('vbs_files', dict(n=5, max_total=3200)))
        for i in range(5):
            t.append(('ipm_files', dict(n=4, max_total=2600)))
    else:
        for i in range(24):
            t.append(('vbs_files', dict(n=8, max_total=12000)))
        for i in range(8):
            t.append(('ipm_files', dict(n=5, max_total=8000)))
    return t


def replay(case):
    spec = case['spec']
    if isinstance(spec, dict) and 'ipm_vars' in spec:
        records = [iso8583.dumps(simple_message(i, var), encoding=case['ipm']) for i, var in enumerate(spec['ipm_vars'])]
    else:
        records = c03.build([tuple(x) for x in spec])
    stream = refvbs.vbs(records)
    data = refvbs.block(stream) if case['blocked'] else stream
    return check_cut(data, case['cut'], case['blocked'], case.get('ipm'))
