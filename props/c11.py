"""C11 - Closing a writer finalises the file exactly once, however close is reached."""
import io
import itertools
import os
import shutil
import tempfile

from hypothesis import strategies as st

from vlib import harness, refvbs
from vlib.harness import exc_sig
from cardutil import mciipm, iso8583
from props import c03, c09

LEVEL = 'exploration'
EXHAUSTIVE = True
TECHNIQUE = 'exhaustive enumeration of finalisation histories (close / context-manager exit, length 1..3) x writer class x format x file kind, plus Hypothesis record lists; read-back oracle and byte-stability after the first finalisation'
RULE = ('Histories write* followed by every sequence over {close(), context-manager exit, context-manager exit through an exception raised after the writes} of length 1..3 (39 sequences; the '
        'first exit is a real with-statement holding the writes, later ones explicit __exit__ calls; plus 84 sequences over {close(), '
        '__exit__, a whole empty with-block, a with-block left through an exception} run after plain writes, so that a with-block is also entered after a finalisation) x {VbsWriter, IpmWriter} x {VBS, 1014} x '
        '{BytesIO, real w+b file, real write-only wb file} x record lists (boundary list enumerated, further lists from Hypothesis). Oracle: a fresh '
        'reader from offset 0 returns exactly the records written, and the file bytes after the first finalisation are '
        'identical after every later one. Non-trivial = >= 2 finalisations with >= 1 record; distinct by (sequence, class, '
        'format, file kind, record lengths).')
ASSUMPTIONS = ['the wrapped file stays open after close() (the documented usage closes it in an outer with-block)',
               'IpmWriter records are compared as the bytes iso8583.dumps produces for each message']

SEQS = [''.join(s) for n in (1, 2, 3) for s in itertools.product('CXE', repeat=n)]
# E = the with-block is left through an exception raised after the writes (it propagates to the caller, who catches it)
# second family: the records are written first, then every sequence over {close(), explicit __exit__, a whole `with w: pass` block}
SEQS_AFTER = ['>' + ''.join(s) for n in (1, 2, 3) for s in itertools.product('CXWE', repeat=n)]


class Boom(Exception):
    pass
BOUNDARY_LISTS = [[], [1], [5, 1008], [1012], [1004], [1008, 1], [2024, 3], [6000], [28, 34], [1000, 1000, 1000]]


class Scratch:
    def __init__(self):
        self.dir = None

    def path(self):
        if self.dir is None:
            self.dir = tempfile.mkdtemp(prefix='cardutil-verif-c11-')
        return os.path.join(self.dir, 'out.bin')

    def cleanup(self):
        if self.dir:
            shutil.rmtree(self.dir, ignore_errors=True)
            self.dir = None


def run_history(seq, records, ipm, blocked, real, scratch):
    """returns (snapshots, expected_record_bytes)"""
    if ipm:
        expected = [iso8583.dumps(dict(m), encoding='latin_1') for m in records]
    else:
        expected = list(records)
    if real:
        path = scratch.path()
        f = open(path, 'wb' if real == 'wb' else 'w+b')

        def snap():
            f.flush()
            with open(path, 'rb') as g:
                return g.read()
    else:
        f = io.BytesIO()

        def snap():
            return f.getvalue()
    try:
        w = mciipm.IpmWriter(f, encoding='latin_1', blocked=blocked) if ipm else mciipm.VbsWriter(f, blocked=blocked)
        snaps = []
        if seq.startswith('>'):
            for r in records:
                w.write(dict(r) if ipm else r)
            for tok in seq[1:]:
                if tok == 'C':
                    w.close()
                elif tok == 'X':
                    w.__exit__(None, None, None)
                elif tok == 'E':
                    try:
                        with w:
                            raise Boom()
                    except Boom:
                        pass
                else:
                    with w:
                        pass
                snaps.append(snap())
            return snaps, expected
        first_x = min([i for i, c in enumerate(seq) if c in 'XE'] or [-1])
        if first_x >= 0:
            try:
                with w as ww:
                    for r in records:
                        ww.write(dict(r) if ipm else r)
                    for _ in seq[:first_x]:
                        ww.close()
                        snaps.append(snap())
                    if seq[first_x] == 'E':
                        raise Boom()
            except Boom:
                pass
            snaps.append(snap())
            rest = seq[first_x + 1:]
        else:
            for r in records:
                w.write(dict(r) if ipm else r)
            rest = seq
        for tok in rest:
            if tok == 'C':
                w.close()
            elif tok == 'E':
                w.__exit__(Boom, Boom(), None)
            else:
                w.__exit__(None, None, None)
            snaps.append(snap())
        return snaps, expected
    finally:
        if real:
            f.close()


def check(seq, records, ipm, blocked, real, scratch):
    name = f"{'IpmWriter' if ipm else 'VbsWriter'}/{'1014' if blocked else 'vbs'}/{('file-' + ('wb' if real == 'wb' else 'w+b')) if real else 'BytesIO'}"
    try:
        snaps, expected = run_history(seq, records, ipm, blocked, real, scratch)
    except Exception as ex:
        return exc_sig('raises', ex), f'history {seq} on {name} raised {ex!r}'
    final = snaps[-1]
    try:
        back = list(mciipm.VbsReader(io.BytesIO(final), blocked=blocked))
    except Exception as ex:
        return exc_sig('readback-raises', ex), f'history {seq} on {name}: reading the result raised {ex!r}'
    if back != expected:
        return ('readback:' + ('multi' if len(seq.lstrip('>')) > 1 else 'single'),
                f'history write x{len(records)} then {seq} on {name}: wrote record lengths {[len(e) for e in expected][:6]}, '
                f'file reads back as {[len(b) for b in back][:6]}')
    for i, s in enumerate(snaps[1:], 1):
        if s != snaps[0]:
            return 'changed-after-first-finalisation', (f'history {seq} on {name}: file bytes after finalisation {i + 1} differ '
                                                        f'from those after the first (len {len(snaps[0])} -> {len(s)}, first diff '
                                                        f'{c03._first_diff(s, snaps[0])})')
    if blocked:
        why = refvbs.check_blocked(final, refvbs.vbs(expected))
    else:
        why = None if final == refvbs.vbs(expected) else 'file differs from the reference VBS layout'
    if why:
        return 'final-layout', f'history {seq} on {name}: {why}'
    return None


def ipm_records(lengths):
    return [c09.simple_message(i, n) for i, n in enumerate(lengths)]


def enumerate_histories(ctx, ipm, blocked, real):
    scratch = Scratch()
    n = nt = 0
    try:
        for lens in BOUNDARY_LISTS:
            records = ipm_records(lens) if ipm else [c03.content('pos', k) for k in lens]
            for seq in SEQS + SEQS_AFTER:
                n += 1
                if len(seq.lstrip('>')) >= 2 and lens:
                    nt += 1
                res = check(seq, records, ipm, blocked, real, scratch)
                if res:
                    ctx.report(res[0], {'seq': seq, 'lens': lens, 'ipm': ipm, 'blocked': blocked, 'real': real}, res[1])
    finally:
        scratch.cleanup()
    ctx.bulk(n, nontrivial_distinct=nt, label=f"{'ipm' if ipm else 'vbs'}/{'1014' if blocked else 'plain'}/{('file-' + str(real)) if real else 'mem'}")
    ctx.enumerated('all 39 finalisation sequences over {close, exit, exit through an exception} of length 1..3 (writes inside the with block) and all 84 sequences over {close, __exit__, whole with-block, with-block left through an exception} of length 1..3 after the writes, x 10 record lists x writer class x format x file kind')
    if not real and not ipm:
        ctx.sample({'history': 'with writer: write(1008 bytes); write(1 byte); close()  [then leaving the with block]', 'seq': 'CX', 'blocked': blocked})


def hyp_histories(ctx, n):
    scratch = Scratch()

    def body(v):
        lens, seq, ipm, blocked, real = v
        records = ipm_records(lens) if ipm else [c03.content('pos', k) for k in lens]
        ctx.case(key=harness.digest((lens, seq, ipm, blocked, real)), nontrivial=len(seq) >= 2 and bool(lens),
                 labels=['hyp', 'multi-finalise' if len(seq.lstrip('>')) > 1 else 'single-finalise', 'real-file' if real else 'BytesIO'])
        res = check(seq, records, ipm, blocked, real, scratch)
        if res:
            ctx.fail(res[0], {'seq': seq, 'lens': lens, 'ipm': ipm, 'blocked': blocked, 'real': real}, res[1])
    strat = st.tuples(st.lists(st.one_of(st.sampled_from([1, 4, 1004, 1008, 1012, 2024]), st.sampled_from(range(1, 3001))), max_size=8),
                      st.sampled_from(SEQS + SEQS_AFTER + ['CCCC', 'XCXC', 'CXCX', 'XXXX', '>WWWW', '>CWCW', '>WCXW']), st.booleans(), st.booleans(),
                      st.sampled_from([False, True, 'wb']))
    try:
        harness.drive(ctx, strat, body, n, salt='hist')
    finally:
        scratch.cleanup()


def tasks(tier, seed):
    t = []
    for ipm in (False, True):
        for blocked in (False, True):
            for real in (False, True, 'wb'):
                t.append(('enumerate_histories', dict(ipm=ipm, blocked=blocked, real=real)))
    for i in range(4 if tier == 'quick' else 16):
        t.append(('hyp_histories', dict(n=150 if tier == 'quick' else 800)))
    return t


def replay(case):
    scratch = Scratch()
    try:
        lens = list(case['lens'])
        records = ipm_records(lens) if case['ipm'] else [c03.content('pos', k) for k in lens]
        return check(case['seq'], records, case['ipm'], case['blocked'], case['real'], scratch)
    finally:
        scratch.cleanup()
