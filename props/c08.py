"""C08 - Decoding accepts exactly the well-framed messages and never mis-frames one."""
import itertools

from hypothesis import strategies as st

from vlib import harness, gen_iso, codecs_, refcodec, mutate, steps
from vlib.harness import where
from vlib.strat import uniform
from cardutil import iso8583
from props import c07

LEVEL = 'fault_enumeration'
EXHAUSTIVE = True
TECHNIQUE = 'differential testing of loads against two independent reference decoders (strict = exactly the well-framed language, lenient = tolerant numerals but exact non-negative tiling) over valid messages and their mutations; exhaustive byte values at length prefixes'
RULE = ('Valid messages from the reference encoder (packaged and generated configurations, 5+ codecs, both renderings) and their '
        'mutations aimed at numerals and framing (length digits replaced by sign, blank, underscore, NUL, non-ASCII digits; '
        'numerals pointing before/at/past the end; bitmap bits toggled; truncate/extend/insert/delete/splice; zero-length '
        'variable fields). Three-valued oracle: (1) strict reference accepts => loads must accept and return the same dict; '
        '(2) loads accepts => lenient reference must accept and agree outside the don\'t-care keys; (3) anything else passes. '
        'Enumerated: all 256 values at each prefix digit and the square/cube of a 24-byte interesting set at LLVAR/LLLVAR '
        'prefixes of seed messages (thorough: all 65536 two-byte LLVAR prefixes). Non-trivial = a mutated message that passes '
        'the header; distinct by digest of (configuration, codec, rendering, bytes).')
ASSUMPTIONS = ['numerals that are not plain [0-9]+ are a don\'t-care for acceptance (Python int() semantics in the lenient reference)',
               'bit 128 set, PDS content of a ragged carrier tail and malformed TLV content are don\'t-care regions; a negative PDS length is a mis-frame',
               'exceptions other than the library error on inputs the strict reference rejects are C07\'s subject, not counted here']

PACKAGED = gen_iso.packaged_config()


def reason_class(reason):
    for key, name in (('negative', 'negative-length'), ('left over', 'leftover-bytes'), ('remain', 'overrun'),
                      ('cut short', 'cut-short'), ('no configuration', 'unconfigured-bit'), ('numeral', 'bad-numeral'),
                      ('not decodable', 'undecodable'), ('MTI', 'mti'), ('bitmap', 'bitmap'), ('shorter', 'short'),
                      ('convertible', 'typed-value'), ('does not match', 'typed-value')):
        if key in reason:
            return name
    return 'other'


def judge(config, codec, hexbm, data, default_cfg=False):
    """returns (problem or None, verdict label)"""
    s = refcodec.decode(config, codec, hexbm, data, strict=True)
    l = refcodec.decode(config, codec, hexbm, data, strict=False)
    if s.ok and (not l.ok or refcodec.compare(s.values, l.values, l.dontcare)):
        raise harness.HarnessError(f'reference decoders disagree with each other on {data!r}: {s} / {l}')
    o = c07.call_loads(data, codec, config, hexbm, default_cfg)
    impl_ok = o.kind == 'ok'
    verdict = ('A' if s.ok else 'R') + ('A' if l.ok else 'R') + ('A' if impl_ok else 'R')
    if s.ok:
        if not impl_ok:
            return ('rejects-well-framed:' + (type(o.ex).__name__ + '@' + where(o.ex) if o.kind != 'hang' else 'non-termination'),
                    f'well-framed message refused ({o.ex!r}; cause {getattr(o.ex, "ex", None)!r}): {data[:120]!r} codec={codec} hex={hexbm}'), verdict
        why = refcodec.compare(s.values, o.value, set())
        if why:
            return ('misreads-well-framed', f'well-framed message read differently from the exact reading: {why}; bytes {data[:120]!r} codec={codec} hex={hexbm}'), verdict
    if impl_ok:
        if not l.ok:
            return ('accepts-misframed:' + reason_class(l.reason),
                    f'loads accepted a message that has no exact reading ({l.reason}) and returned {c07_short(o.value)}; bytes {data[:120]!r} codec={codec} hex={hexbm}'), verdict
        why = refcodec.compare(l.values, o.value, l.dontcare)
        if why:
            return ('misframes', f'loads returned a reading that is not the exact one: {why}; bytes {data[:120]!r} codec={codec} hex={hexbm}'), verdict
    return None, verdict


def c07_short(d):
    s = repr(d)
    return s if len(s) < 240 else s[:240] + '...'


def case_of(config, gen, codec, hexbm, data):
    return {'config': config if gen else None, 'codec': codec, 'hex': hexbm, 'data': data}


# --------------------------------------------------------------------------------------- generated

def hyp_valid(ctx, n):
    """completeness side: strict-accepted messages incl. zero-length variable fields"""
    @st.composite
    def cases(draw):
        config, codec, hexbm, data, gen = draw(c07.valid_cases(ctx.tier, rich=True))
        zero = draw(st.booleans())
        if zero:
            frames = mutate.frames_of(config, codec, hexbm, data)
            lens = [i for i, f in enumerate(frames) if f[0] == 'len']
            if lens:
                i = lens[draw(uniform(0, len(lens) - 1))]
                _, bit, s, e = frames[i]
                vs, ve = frames[i + 1][2], frames[i + 1][3]
                data = data[:s] + '0'.encode(codec) * (e - s) + data[ve:]
        return config, codec, hexbm, data, gen, zero

    def body(v):
        config, codec, hexbm, data, gen, zero = v
        prob, verdict = judge(config, codec, hexbm, data, default_cfg=not gen)
        ctx.case(key=harness.digest(('valid', config if gen else 0, codec, hexbm, data)), nontrivial=False,
                 labels=['valid-side', 'verdict:' + verdict] + (['zero-length-field'] if zero else []))
        if prob:
            ctx.fail(prob[0], case_of(config, gen, codec, hexbm, data), prob[1])
    harness.drive(ctx, cases(), body, n, salt='valid')


def hyp_mutated(ctx, n):
    @st.composite
    def cases(draw):
        config, codec, hexbm, data, gen = draw(c07.valid_cases(ctx.tier, rich=True))
        frames = mutate.frames_of(config, codec, hexbm, data)
        ops = draw(mutate.op_lists(len(data), frames, codec, max_ops=3))
        return config, codec, hexbm, data, gen, ops, frames

    def body(v):
        config, codec, hexbm, data, gen, ops, frames = v
        mutated = mutate.apply(data, ops, frames, codec, hexbm)
        prob, verdict = judge(config, codec, hexbm, mutated, default_cfg=not gen)
        rs = c07.reached(config, codec, hexbm, mutated)
        ctx.case(key=harness.digest(('mut', config if gen else 0, codec, hexbm, mutated)), nontrivial='fields' in rs and mutated != data,
                 labels=['mutated', 'verdict:' + verdict, 'mutated-verdict:' + verdict] + ['op:' + o[0] for o in ops])
        if len(ctx.samples) < 5 and 'fields' in rs:
            ctx.sample({'codec': codec, 'hex_bitmap': hexbm, 'ops': ops, 'mutated': mutated[:100], 'verdict(strict,lenient,loads)': verdict})
        if prob:
            ctx.fail(prob[0], case_of(config, gen, codec, hexbm, mutated), prob[1])
    harness.drive(ctx, cases(), body, n, salt='mutated')
    ctx.floor('mutated-verdict:AAA', 0.02, 'mutated')
    ctx.floor('mutated-verdict:RRR', 0.10, 'mutated')


# --------------------------------------------------------------------------------------- prefix enumeration

def interesting_bytes(codec):
    chars = '0123456789 -+_.'
    out = [c.encode(codec) for c in chars if _enc1(c, codec)]
    out += [b'\x00', b'\xff', b'\x40', b'\x2d', b'\x60', b'\x4e']
    for c in codecs_.extra_digits(codec)[:3]:
        out.append(c.encode(codec))
    seen = []
    for b in out:
        if b not in seen:
            seen.append(b)
    return seen[:24]


def _enc1(c, codec):
    try:
        return len(c.encode(codec)) == 1
    except UnicodeEncodeError:
        return False


SEED_CONFIG = {
    '2': {'field_type': 'LLVAR', 'field_length': 0},
    '3': {'field_type': 'FIXED', 'field_length': 6},
    '7': {'field_type': 'LLVAR', 'field_length': 0, 'field_python_type': 'int'},
    '35': {'field_type': 'LLVAR', 'field_length': 0, 'field_processor': 'PAN'},
    '48': {'field_type': 'LLLVAR', 'field_length': 0, 'field_processor': 'PDS'},
    '54': {'field_type': 'LLLVAR', 'field_length': 0},
    '55': {'field_type': 'LLLVAR', 'field_length': 255, 'field_processor': 'ICC'},
    '56': {'field_type': 'LLVAR', 'field_length': 255, 'field_processor': 'ICC'},
    '70': {'field_type': 'FIXED', 'field_length': 3, 'field_python_type': 'int'},
}
SEED_MESSAGES = [
    {'MTI': '1144', 'DE2': '4444555566667777', 'DE3': '123456'},
    {'MTI': '1240', 'DE7': 20481, 'DE3': 'ABCDEF', 'DE70': 301},
    {'MTI': '1442', 'DE35': '5412345678901234', 'DE54': 'additional amounts 0123456789', 'DE70': 7},
    {'MTI': '1644', 'DE56': b'\x9f\x26\x02\xaa\xbb\x82\x01\x80', 'DE48': '0023003abc0148004dddd', 'DE55': b'\x5f\x2a\x02\x09\x78\x95\x01\x00\x00'},
]


def sweep_prefix(ctx, seed_idx, codec, mode):
    msg = SEED_MESSAGES[seed_idx]
    n = nt = 0
    for hexbm in (False, True):
        data = refcodec.encode(SEED_CONFIG, codec, hexbm, msg)
        frames = mutate.frames_of(SEED_CONFIG, codec, hexbm, data)
        ib = interesting_bytes(codec)
        # the whole bitmap moved by one or two bit numbers, with bit 1 set, clear or untouched
        for k in (1, -1, 2, -2, 3, 8, -8):
            for bit1 in (None, False, True):
                mutated = mutate.apply(data, [('bmshift', k, bit1)], frames, codec, hexbm)
                n += 1
                prob, verdict = judge(SEED_CONFIG, codec, hexbm, mutated)
                ctx.labels['verdict:' + verdict] += 1
                ctx.labels['bitmap-shift'] += 1
                nt += mutated != data
                if prob:
                    ctx.report(prob[0], case_of(SEED_CONFIG, True, codec, hexbm, mutated), prob[1])
        for bit in range(1, 129):
            mutated = mutate.apply(data, [('bit', bit)], frames, codec, hexbm)
            n += 1
            prob, verdict = judge(SEED_CONFIG, codec, hexbm, mutated)
            ctx.labels['verdict:' + verdict] += 1
            nt += 1
            if prob:
                ctx.report(prob[0], case_of(SEED_CONFIG, True, codec, hexbm, mutated), prob[1])
        for kind, bit, s, e in frames:
            if kind not in ('len', 'pds_len'):
                continue
            width = e - s
            combos = []
            for pos in range(s, e):
                combos += [(pos, bytes([v])) for v in range(256)]
            if mode == 'full' and width == 2:
                combos += [(s, bytes([a, b])) for a in range(256) for b in range(256)]
            else:
                combos += [(s, b''.join(t)) for t in itertools.product(ib, repeat=width)]
            variants = [data[:pos] + repl + data[pos + len(repl):] for pos, repl in combos]
            if kind == 'len':
                # negative declared length with the following bytes pulled up so that the message still tiles
                li = [i for i, f in enumerate(frames) if f[0] == 'len'].index(frames.index((kind, bit, s, e)))
                variants += [mutate.apply(data, [('neg', li, k)], frames, codec, hexbm) for k in range(1, 10 if width == 2 else 41)]
            for mutated in variants:
                n += 1
                prob, verdict = judge(SEED_CONFIG, codec, hexbm, mutated)
                ctx.labels['verdict:' + verdict] += 1
                nt += mutated != data
                if prob:
                    ctx.report(prob[0], case_of(SEED_CONFIG, True, codec, hexbm, mutated), prob[1])
    ctx.bulk(n, nontrivial_distinct=nt, label='prefix-sweep')
    ctx.enumerated('seed messages x {binary, hex}: all 256 values at each length-prefix / PDS-length byte, plus '
                   + ('all 65536 two-byte values at LLVAR prefixes and ' if mode == 'full' else '')
                   + 'every combination of a 24-byte interesting set over the whole numeral')
    if seed_idx == 0:
        ctx.sample({'seed_message': msg, 'codec': codec, 'faults': 'every byte value / interesting combination at each length numeral'})


def tasks(tier, seed):
    full = tier == 'thorough'
    t = []
    for i in range(len(SEED_MESSAGES)):
        for codec in (('latin_1', 'cp500') if not full else ('latin_1', 'cp500', 'cp864', 'ascii')):
            t.append(('sweep_prefix', dict(seed_idx=i, codec=codec, mode='full' if full else 'quick')))
    for i in range(3 if not full else 8):
        t.append(('hyp_valid', dict(n=250 if not full else 2500)))
    for i in range(6 if not full else 16):
        t.append(('hyp_mutated', dict(n=350 if not full else 4000)))
    if full:
        from props import c07_fuzz
        t += c07_fuzz.tasks(seed, prop='C08')
    return t


def replay(case):
    config = case.get('config') or PACKAGED
    prob, _ = judge(config, case['codec'], case['hex'], case['data'], default_cfg=case.get('config') is None)
    return prob


from props.c07_fuzz import fuzz_shard  # noqa: E402,F401  (task function of the thorough tier)
