"""C01 - ISO8583 round trip: decoding an encoded message returns every value unchanged."""
import copy
import decimal
import datetime
import re

from hypothesis import strategies as st

from vlib import harness, gen_iso, codecs_, refcodec
from vlib.harness import exc_sig
from cardutil import iso8583

LEVEL = 'exploration'
EXHAUSTIVE = True
TECHNIQUE = 'Hypothesis-generated (configuration, codec, bitmap rendering, message) round trips + exhaustive sweeps of variable-field lengths, numeric extremes and calendar days'
RULE = ('(configuration, codec, bitmap rendering, message) is generated: packaged Mastercard configuration or a generated one '
        '(1..24 bits biased to byte/word edges; fixed/LLVAR/LLLVAR text, int/long, decimal, datetime in six formats, PAN, '
        'PAN-PREFIX, PDS carriers, ICC, DE43), every single-byte codec Python ships, both bitmap renderings; values always '
        'fit their field (fixed text exactly the width). Oracle: loads(dumps(m)) holds every original key with an equal '
        'value of the same type (PAN -> reference mask, PAN-PREFIX -> first nine), and the only extra keys are the carrier '
        'elements, ICC_DATA/TAGxxxx and the DE43 regex groups. Enumerated sub-spaces are listed under exhaustive_subspaces. '
        'Non-trivial = >= 2 elements, or a variable field of length >= 10, or PDS/ICC present; distinct by digest of the whole case.')
ASSUMPTIONS = ['PDS sub-elements are supplied as PDSxxxx keys only (a raw carrier plus keys is documented as unsupported)',
               'PAN / PAN-PREFIX elements hold at least 10 digits', 'numbers are non-negative; int values are given as int',
               'the caller\'s dict is copied before dumps (dumps adds carrier elements to it; not part of the property)']

PACKAGED = gen_iso.packaged_config()


def roundtrip(config, codec, hexbm, msg, use_default_config=False):
    """None or (signature, message)"""
    # the encoding goes by any name Python knows it by (aliases, upper case): two thirds of the calls use another spelling
    kw = dict(encoding=codecs_.spell(codec, len(repr(msg))), hex_bitmap=hexbm)
    if codec == 'latin_1' and len(msg) % 2:
        del kw['encoding']          # latin_1 is the documented default: rely on it for half of those cases
    if not hexbm and len(msg) % 3 == 0:
        del kw['hex_bitmap']        # likewise the binary bitmap
    if not use_default_config:
        kw['iso_config'] = gen_iso.same_object(config, len(repr(msg)) + 1)
    try:
        data = iso8583.dumps(copy.deepcopy(msg), **kw)
    except Exception as ex:
        return exc_sig('dumps-raises', ex), f'dumps raised {ex!r} for {_short(msg)} under {codec}'
    try:
        out = iso8583.loads(data, **kw)
    except Exception as ex:
        return exc_sig('loads-raises', ex), f'loads(dumps(m)) raised {ex!r} (cause {getattr(ex, "ex", None)!r}) for {_short(msg)} under {codec} hex={hexbm}'
    return compare_out(config, msg, out, f'under {codec} hex={hexbm}')


def compare_out(config, msg, out, ctxt=''):
    """C01 equivalence between a message that was sent and the dictionary that came back"""
    allowed_extra = set()
    for b, c in config.items():
        proc = c.get('field_processor')
        key = 'DE' + b
        if proc == 'PDS':
            allowed_extra.add(key)
        if proc == 'DE43' and key in msg and c.get('field_processor_config'):
            allowed_extra |= set(re.compile(c['field_processor_config']).groupindex)
    icc_sent = any(config[k[2:]].get('field_processor') == 'ICC' for k in msg if k.startswith('DE') and k[2:] in config)
    for k, v in msg.items():
        want = v
        if k.startswith('DE'):
            if config[k[2:]].get('field_python_type') in ('int', 'long') and isinstance(v, (float, decimal.Decimal)):
                want = int(v)       # a whole number handed over as float / Decimal comes back as the equal int
            proc = config[k[2:]].get('field_processor')
            if proc == 'PAN':
                want = refcodec.mask_pan(v)
            elif proc == 'PAN-PREFIX':
                want = v[:9]
        if k not in out:
            return 'key-lost:' + _kclass(k, config), f'{k} = {v!r} missing from the decoded message {ctxt}; message {_short(msg)}'
        got = out[k]
        if type(got) is not type(want) or got != want:
            return 'value-changed:' + _kclass(k, config), f'{k}: sent {v!r}, expected back {want!r}, got {got!r} {ctxt}'
    for k in out:
        if k in msg or k in allowed_extra:
            continue
        if icc_sent and (k == 'ICC_DATA' or k.startswith('TAG')):
            continue
        if k.startswith('DE43_') and any(c.get('field_processor') == 'DE43' and 'DE' + b in msg for b, c in config.items()):
            continue
        return 'extra-key', f'unexpected key {k} = {out[k]!r} in the decoded message; message {_short(msg)}'
    return None


def _kclass(k, config):
    if k.startswith('PDS'):
        return 'pds'
    if k == 'MTI':
        return 'mti'
    c = config.get(k[2:], {})
    return (c.get('field_processor') or c.get('field_python_type') or 'text') + ':' + c.get('field_type', '?')


def _short(msg):
    s = repr(msg)
    return s if len(s) < 300 else s[:300] + '...'


def nontrivial(config, msg):
    des = [k for k in msg if k.startswith('DE')]
    if len(des) >= 2 or any(k.startswith('PDS') for k in msg):
        return True
    for k in des:
        c = config[k[2:]]
        if c.get('field_processor') == 'ICC':
            return True
        if c['field_type'] != 'FIXED' and hasattr(msg[k], '__len__') and len(msg[k]) >= 10:
            return True
    return False


@st.composite
def cases(draw, tier, generated):
    codec = draw(gen_iso.codec_strategy(tier))
    hexbm = draw(st.booleans())
    if generated:
        config = draw(gen_iso.configs())
    else:
        config = PACKAGED
    msg = draw(gen_iso.messages(config, codec, exact=True, pds_mode='keys', typed_as_str='numeric', pds_big=draw(st.sampled_from([True, False, False, False]))))
    return config, codec, hexbm, msg, generated


def labels_for(config, codec, hexbm, msg, generated):
    labs = ['cfg:generated' if generated else 'cfg:packaged', 'family:' + codecs_.family(codec), 'bitmap:hex' if hexbm else 'bitmap:binary']
    des = [int(k[2:]) for k in msg if k.startswith('DE')]
    if any(b >= 65 for b in des):
        labs.append('has-bit>=65')
    if any(config[str(b)]['field_type'] == 'LLLVAR' and hasattr(msg['DE%d' % b], '__len__') and len(msg['DE%d' % b]) >= 100 for b in des):
        labs.append('lllvar>=100')
    pds = [(int(k[3:]), v) for k, v in msg.items() if k.startswith('PDS')]
    if pds:
        labs.append('has-pds')
        if len(refcodec.pack_pds(pds)) >= 2:
            labs.append('pds>=2-carriers')
    for b in des:
        c = config[str(b)]
        if c.get('field_processor'):
            labs.append('proc:' + c['field_processor'])
        if c.get('field_python_type'):
            labs.append('type:' + c['field_python_type'])
    return labs


def hyp_roundtrip(ctx, n, generated):
    def body(v):
        config, codec, hexbm, msg, gen = v
        ctx.case(key=harness.digest((config if gen else 'packaged', codec, hexbm, msg)), nontrivial=nontrivial(config, msg),
                 labels=['hyp'] + labels_for(config, codec, hexbm, msg, gen))
        if len(ctx.samples) < 3:
            ctx.sample({'config': gen_iso.describe(config) if gen else 'packaged', 'codec': codec, 'hex_bitmap': hexbm, 'message': msg})
        res = roundtrip(config, codec, hexbm, msg, use_default_config=not gen)
        if res:
            ctx.fail(res[0], {'config': config if gen else None, 'codec': codec, 'hex': hexbm, 'msg': msg}, res[1])
    harness.drive(ctx, cases(ctx.tier, generated), body, n, salt='gen' if generated else 'pkg')
    ctx.floor('family:ebcdic', 0.15, 'hyp')
    ctx.floor('bitmap:hex', 0.30, 'hyp')
    ctx.floor('has-bit>=65', 0.10, 'hyp')
    ctx.floor('lllvar>=100', 0.03, 'hyp')
    ctx.floor('has-pds', 0.05, 'hyp')


def sweep_lengths(ctx, bits, full):
    """every length of each variable text field of the packaged configuration x {latin_1, cp500} x {binary, hex}"""
    n = nt = 0
    for b in bits:
        c = PACKAGED[str(b)]
        top = 99 if c['field_type'] == 'LLVAR' else 999
        lengths = range(1, top + 1) if full else sorted({1, 2, 3, 9, 10, 11, 98, 99, 100, 101, 255, 256, 998, 999} & set(range(1, top + 1)))
        for ln in lengths:
            for codec in ('latin_1', 'cp500'):
                for hexbm in (False, True):
                    if c.get('field_processor') == 'DE43':
                        val = ('M' * ln)
                    else:
                        val = ('Az09 ~' * (ln // 6 + 1))[:ln]
                    msg = {'MTI': '1240', 'DE%d' % b: val}
                    n += 1
                    nt += 1 if ln >= 10 else 0
                    res = roundtrip(PACKAGED, codec, hexbm, msg, use_default_config=True)
                    if res:
                        ctx.report(res[0], {'config': None, 'codec': codec, 'hex': hexbm, 'msg': msg}, res[1])
    ctx.bulk(n, nontrivial_distinct=nt, label='sweep-lengths')
    ctx.enumerated(('every length' if full else 'boundary lengths') + ' of each LLVAR (1..99) / plain LLLVAR (1..999) text field of the packaged configuration x {latin_1, cp500} x {binary, hex}')


def sweep_numeric(ctx):
    n = 0
    for b, c in PACKAGED.items():
        if c.get('field_python_type') in ('int', 'long'):
            w = c['field_length']
            for v in (0, 1, 9, 10 ** w - 1, 10 ** (w - 1), 10 ** (w - 1) - 1, 123456789 % 10 ** w, 1234567890123 % 10 ** w):
                for codec in ('latin_1', 'cp500'):
                    msg = {'MTI': '1240', 'DE' + b: v}
                    n += 1
                    res = roundtrip(PACKAGED, codec, False, msg, use_default_config=True)
                    if res:
                        ctx.report(res[0], {'config': None, 'codec': codec, 'hex': False, 'msg': msg}, res[1])
    ctx.bulk(n, nontrivial_distinct=0, label='sweep-numeric')
    ctx.enumerated('zero, one and extreme values of every numeric field of the packaged configuration')
    ctx.sample({'config': 'packaged', 'codec': 'cp500', 'message': {'MTI': '1240', 'DE4': 999999999999}})


def sweep_days(ctx, start, end, full):
    """calendar days of DE12 (%y%m%d%H%M%S) at three times of day"""
    d = datetime.date.fromordinal(start)
    n = 0
    while d.toordinal() < end:
        nxt = d + datetime.timedelta(days=1)
        interesting = full or nxt.day == 1 or (d.month == 2 and d.day >= 28) or d.day == 1
        if interesting:
            for t in ((0, 0, 0), (12, 30, 15), (23, 59, 59)):
                dt = datetime.datetime(d.year, d.month, d.day, *t)
                msg = {'MTI': '1240', 'DE12': dt}
                n += 1
                res = roundtrip(PACKAGED, 'latin_1' if n % 2 else 'cp500', False, msg, use_default_config=True)
                if res:
                    ctx.report(res[0], {'config': None, 'codec': 'latin_1' if n % 2 else 'cp500', 'hex': False, 'msg': msg}, res[1])
        d = nxt
    ctx.bulk(n, nontrivial_distinct=0, label='sweep-days')
    ctx.enumerated(('every calendar day' if full else 'month ends, month starts and leap days') + ' 1969-01-01..2068-12-31 at three times of day for DE12')


def tasks(tier, seed):
    full = tier == 'thorough'
    t = []
    var_bits = [int(b) for b, c in PACKAGED.items() if c['field_type'] != 'FIXED' and c.get('field_processor') in (None, 'DE43')]
    for b in var_bits:
        t.append(('sweep_lengths', dict(bits=[b], full=full)))
    t.append(('sweep_numeric', {}))
    lo = datetime.date(1969, 1, 1).toordinal()
    hi = datetime.date(2069, 1, 1).toordinal()
    step = (hi - lo) // 8 + 1
    for s in range(lo, hi, step):
        t.append(('sweep_days', dict(start=s, end=min(s + step, hi), full=full)))
    k = 8 if not full else 16
    for i in range(k):
        t.append(('hyp_roundtrip', dict(n=400 if not full else 2500, generated=False)))
    for i in range(k):
        t.append(('hyp_roundtrip', dict(n=300 if not full else 2000, generated=True)))
    return t


def replay(case):
    config = case['config'] or PACKAGED
    return roundtrip(config, case['codec'], case['hex'], case['msg'], use_default_config=case['config'] is None)
