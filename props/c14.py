"""C14 - PVV, key check value and key-part combination match the published algorithms."""
import hashlib
import itertools

from hypothesis import strategies as st

from vlib import harness, refcrypto
from vlib.harness import exc_sig
from vlib.strat import uniform
from cardutil import pinblock, key as keymod

LEVEL = 'exploration'
EXHAUSTIVE = False
TECHNIQUE = 'Hypothesis over (PIN, PAN, key index, key) and component lists against from-scratch DES/3DES (FIPS known-answer checked); inputs for every second-decimalisation-scan class are constructed by decrypting shaped ciphertext blocks'
RULE = ('PIN 4..12 digits, PAN 13..19 digits, key index 0..9, DES/3DES keys of 8, 16, 24 bytes from Hypothesis (hex in either case; also the DES weak / semi-weak keys and component lists whose XOR lands on one). Cases where the first '
        'decimalisation scan yields 0, 1, 2, 3 or >= 4 digits are constructed: ciphertext blocks with the wanted number of decimal '
        'nibbles are decrypted under the drawn key and kept when the plaintext is 16 decimal digits, from which PAN digits, index and '
        'PIN are read (search accelerated with the cryptography package; every hit re-derived with the reference cipher, which alone '
        'is the oracle). Oracle: reference Visa PVV (digits left to right, then A-F -> 0-5, first four), same through to_pvv on '
        'format-0 and format-4 objects; KCV = leading 1..16 hex digits of the reference 3DES encryption of zeros; combination = XOR '
        'of the parts, invariant under permutation, a repeated part cancels; encrypted zone key = reference 3DES-ECB of the XOR. '
        'Non-trivial = PIN longer than 4, or index != 1, or a second scan needed; distinct by digest.')
ASSUMPTIONS = ['reference DES/3DES in vlib/refcrypto.py, checked against FIPS known answers at start-up, is the oracle',
               'key components are double-length (32 hex digits); hex case is not significant in results']

DEC = '0123456789'
# key values with a reputation: the DES weak and semi-weak keys (odd parity), all-zero / all-one halves. The published
# algorithms are defined for them like for any other key; a combined key may land on one of them.
SPECIAL_HALVES = ['0101010101010101', 'fefefefefefefefe', 'e0e0e0e0f1f1f1f1', '1f1f1f1f0e0e0e0e',
                  '011f011f010e010e', '1f011f010e010e01', '01e001e001f101f1', 'e001e001f101f101', '01fe01fe01fe01fe', 'fe01fe01fe01fe01',
                  '1fe01fe00ef10ef1', 'e01fe01ff10ef10e', '1ffe1ffe0efe0efe', 'fe1ffe1ffe0efe0e', 'e0fee0fef1fef1fe', 'fee0fee0fef1fef1',
                  '0000000000000000', 'ffffffffffffffff']




def ref_pvv(pin, key_hex, index, pan):
    tsp = pan[len(pan) - 12:len(pan) - 1] + str(index) + pin[:4]
    ct = refcrypto.tdes_ecb_encrypt(bytes.fromhex(key_hex), bytes.fromhex(tsp)).hex()
    out = [c for c in ct if c in DEC]
    if len(out) < 4:
        out += [DEC['abcdef'.index(c)] for c in ct if c not in DEC]
    return ''.join(out[:4]), sum(c in DEC for c in ct)


def check_pvv(pin, key_hex, index, pan, via_objects=True):
    want, ndec = ref_pvv(pin, key_hex, index, pan)
    desc = f'PIN {pin!r} PAN {pan!r} index {index} key {len(key_hex) // 2} bytes'
    try:
        got = pinblock.calculate_pvv(pin=pin, pvv_key=key_hex, key_index=index, card_number=pan)
    except Exception as ex:
        return exc_sig('pvv-raises', ex), f'calculate_pvv raised {ex!r} for {desc}'
    if got != want:
        return 'pvv-differs:' + ('second-scan' if ndec < 4 else 'first-scan'), (f'calculate_pvv = {got!r}, Visa PVV is {want!r} for {desc} '
                                                                                  f'({ndec} decimal digits in the ciphertext)')
    if via_objects:
        try:
            a = pinblock.Iso0TDESPinBlockWithVisaPVV(pin=pin, card_number=pan).to_pvv(pvv_key=key_hex, key_index=index)
            # a format-4 block carries no card number of its own: one object answers for whatever PAN each call names
            obj = pinblock.Iso4AESPinBlockWithVisaPVV(pin=pin, random_value=1)
            other = pan[::-1]
            first = obj.to_pvv(pvv_key=key_hex, key_index=index, card_number=other)
            if first != ref_pvv(pin, key_hex, index, other)[0]:
                return 'to_pvv-differs', f'to_pvv (format 4) gives {first!r} for PAN {other!r}, Visa PVV is {ref_pvv(pin, key_hex, index, other)[0]!r} for {desc}'
            b = obj.to_pvv(pvv_key=key_hex, key_index=index, card_number=pan)
        except Exception as ex:
            return exc_sig('to_pvv-raises', ex), f'to_pvv raised {ex!r} for {desc}'
        if a != want or b != want:
            return 'to_pvv-differs', f'to_pvv gives {a!r} (format 0) / {b!r} (format 4, same object asked for another PAN before), Visa PVV is {want!r} for {desc}'
    return None


def check_kcv(key_bytes, n):
    want = refcrypto.tdes_ecb_encrypt(key_bytes, b'\x00' * 8).hex()
    want = (want + refcrypto.tdes_ecb_encrypt(key_bytes, b'\x00' * 8).hex())[:n]
    try:
        got = keymod.calculate_kcv(key_bytes, n) if n != 6 else keymod.calculate_kcv(key_bytes)
    except Exception as ex:
        return exc_sig('kcv-raises', ex), f'calculate_kcv raised {ex!r} for a {len(key_bytes)}-byte key, length {n}'
    if got.lower() != want:
        return 'kcv-differs', f'calculate_kcv({key_bytes.hex()}, {n}) = {got!r}, expected {want!r}'
    return None


def xor_parts(parts):
    v = 0
    for p in parts:
        v ^= int(p, 16)
    return v


def check_combine(parts, master_hex):
    want = xor_parts(parts)
    want_bytes = want.to_bytes(16, 'big')
    want_kcv = refcrypto.tdes_ecb_encrypt(want_bytes, b'\x00' * 8).hex()[:6]
    try:
        clear, kcv = keymod.get_zone_master_key(*parts)
    except Exception as ex:
        return exc_sig('combine-raises', ex), f'get_zone_master_key raised {ex!r} for {len(parts)} parts'
    if int(clear, 16) != want or len(clear) != 32:
        return 'combine-differs', f'get_zone_master_key{tuple(parts)} = {clear!r}, XOR of the parts is {want:032x}'
    if kcv.lower() != want_kcv:
        return 'combine-kcv', f'key check value {kcv!r} for combined key {want:032x}, expected {want_kcv!r}'
    for perm in itertools.islice(itertools.permutations(parts), 1, 7):
        c2, _ = keymod.get_zone_master_key(*perm)
        if int(c2, 16) != want:
            return 'combine-order-dependent', f'combination depends on the order of the parts: {perm} -> {c2!r}'
    c3, _ = keymod.get_zone_master_key(*(list(parts) + [parts[0], parts[0]]))
    if int(c3, 16) != want:
        return 'combine-repeat-does-not-cancel', f'a component given twice more does not cancel: {c3!r} vs {want:032x}'
    if master_hex:
        want_enc = refcrypto.tdes_ecb_encrypt(bytes.fromhex(master_hex), want_bytes).hex()
        try:
            enc, kcv2 = keymod.get_enc_zone_master_key(master_hex, *parts)
        except Exception as ex:
            return exc_sig('enc-zmk-raises', ex), f'get_enc_zone_master_key raised {ex!r}'
        if enc.lower() != want_enc:
            return 'enc-zmk-differs', f'encrypted zone key {enc!r}, reference {want_enc!r} (master key {len(master_hex) // 2} bytes)'
        if kcv2.lower() != want_kcv:
            return 'enc-zmk-kcv', f'kcv {kcv2!r}, expected {want_kcv!r}'
    return None


# ------------------------------------------------------------------------------ constructing second-scan cases

def shaped_block(seedb, i, ndec):
    """8-byte block whose hex form has exactly ndec decimal nibbles (ndec 0..3), positions and values from a hash"""
    h = hashlib.blake2b(seedb + i.to_bytes(4, 'big'), digest_size=24).digest()
    order = sorted(range(16), key=lambda p: h[p])
    decpos = set(order[:ndec])
    nibs = []
    for p in range(16):
        v = h[8 + p % 16] if p < 16 else 0
        nibs.append(v % 10 if p in decpos else 10 + v % 6)
    return bytes((nibs[2 * j] << 4) | nibs[2 * j + 1] for j in range(8))


def find_cases(key_hex, ndec, want, seedb, budget=40000):
    """returns list of (pin4, index, pan11) whose TSP encrypts to a block with exactly ndec decimal nibbles"""
    from cryptography.hazmat.primitives.ciphers import Cipher, modes
    from cryptography.hazmat.decrepit.ciphers import algorithms as d_algorithms
    kb = bytes.fromhex(key_hex)
    hits = []
    i = 0
    while len(hits) < want and i < budget:
        blocks = [shaped_block(seedb, i + j, ndec) for j in range(4000)]
        i += 4000
        dec = Cipher(d_algorithms.TripleDES(kb), modes.ECB()).decryptor()
        plain = dec.update(b''.join(blocks)) + dec.finalize()
        for j in range(len(blocks)):
            ph = plain[8 * j:8 * j + 8].hex()
            if all(c in DEC for c in ph):
                # the accelerator only proposes; the reference cipher must agree before the case is used
                if refcrypto.tdes_ecb_encrypt(kb, bytes.fromhex(ph)) == blocks[j]:
                    hits.append((ph[12:], int(ph[11]), ph[:11]))
                    if len(hits) >= want:
                        break
    return hits


def second_scan(ctx, per_class, nkeys):
    refcrypto.selftest()
    keys = ['0123456789abcdeffedcba9876543210', '11' * 8 + '22' * 8 + '33' * 8, 'a1b2c3d4e5f60718']
    for kidx in range(nkeys):
        key_hex = keys[kidx % len(keys)] if kidx < len(keys) else hashlib.blake2b(b'k%d-%d' % (ctx.seed, kidx), digest_size=16).hexdigest()
        for ndec in (0, 1, 2, 3):
            hits = find_cases(key_hex, ndec, per_class, b'%d-%d-%d' % (ctx.seed, kidx, ndec))
            for n, (pin4, index, pan11) in enumerate(hits):
                extra = ('%08d' % (n * 7919))[:n % 9]
                pin = pin4 + extra
                pan = ('5412345'[:(n % 7) + 1]) + pan11 + str(n % 10)
                _, got_ndec = ref_pvv(pin, key_hex, index, pan)
                if got_ndec != ndec:
                    raise harness.HarnessError('constructed case does not have the intended shape')
                ctx.case(key=harness.digest((pin, key_hex, index, pan)), nontrivial=True,
                         labels=[f'second-scan-needs-{4 - ndec}-digits', 'constructed'])
                if n == 0:
                    ctx.sample({'pin': pin, 'pan': pan, 'key_index': index, 'key_bytes': len(key_hex) // 2,
                                'decimal_digits_in_ciphertext': ndec})
                res = check_pvv(pin, key_hex, index, pan)
                if res:
                    ctx.report(res[0], {'kind': 'pvv', 'pin': pin, 'key': key_hex, 'index': index, 'pan': pan}, res[1])
    for k in (1, 2, 3, 4):
        ctx.floor(f'second-scan-needs-{k}-digits', per_class, None)


def hyp_pvv(ctx, n):
    refcrypto.selftest()
    digits = lambda lo, hi: uniform(lo, hi).flatmap(lambda k: st.text(alphabet=DEC, min_size=k, max_size=k))
    keys = st.one_of(st.sampled_from([8, 16, 24]).flatmap(lambda k: st.binary(min_size=k, max_size=k)).flatmap(
        lambda b: st.sampled_from([b.hex(), b.hex(), b.hex().upper()])),
        st.sampled_from([8, 16, 24]).flatmap(lambda k: st.binary(min_size=k, max_size=k)).map(bytes.hex),
        st.lists(st.sampled_from(SPECIAL_HALVES), min_size=1, max_size=3).map(''.join))

    def body(v):
        pin, pan, index, key_hex = v
        _, ndec = ref_pvv(pin, key_hex, index, pan)
        ctx.case(key=harness.digest((pin, pan, index, key_hex)), nontrivial=len(pin) > 4 or index != 1 or ndec < 4,
                 labels=['pvv-hyp', f'pinlen={len(pin)}', f'panlen={len(pan)}', f'keylen={len(key_hex) // 2}',
                         'second-scan-needs-0-digits' if ndec >= 4 else f'second-scan-needs-{4 - ndec}-digits'])
        if len(ctx.samples) < 3:
            ctx.sample({'pin': pin, 'pan': pan, 'key_index': index, 'key_bytes': len(key_hex) // 2})
        res = check_pvv(pin, key_hex, index, pan)
        if res:
            ctx.fail(res[0], {'kind': 'pvv', 'pin': pin, 'key': key_hex, 'index': index, 'pan': pan}, res[1])
    harness.drive(ctx, st.tuples(digits(4, 12), digits(13, 19), uniform(0, 9), keys), body, n, salt='pvv')


@st.composite
def parts_with_special_xor(draw):
    """component lists whose XOR has a special half (or two, or equal halves)"""
    half = st.sampled_from(SPECIAL_HALVES)
    other = st.binary(min_size=8, max_size=8).map(bytes.hex)
    shape = draw(st.sampled_from(['left', 'right', 'both', 'equal-halves']))
    if shape == 'left':
        target = draw(half) + draw(other)
    elif shape == 'right':
        target = draw(other) + draw(half)
    elif shape == 'both':
        target = draw(half) + draw(half)
    else:
        target = draw(other) * 2
    rest = draw(st.lists(st.binary(min_size=16, max_size=16).map(bytes.hex), min_size=1, max_size=3))
    last = int(target, 16)
    for r in rest:
        last ^= int(r, 16)
    parts = rest + ['%032x' % last]
    parts = list(draw(st.permutations(parts)))
    if draw(st.booleans()):
        parts = [x.upper() for x in parts]
    return parts


def hyp_keys(ctx, n):
    refcrypto.selftest()
    part = st.binary(min_size=16, max_size=16).flatmap(lambda b: st.sampled_from([b.hex(), b.hex().upper()]))
    parts = st.one_of(st.lists(st.one_of(part, st.sampled_from(['00' * 16, 'ff' * 16, '6D6BE51F04F76167491554FE25F7ABEF'])), min_size=1, max_size=5),
                      st.lists(st.one_of(part, st.sampled_from(['00' * 16, 'ff' * 16, '6D6BE51F04F76167491554FE25F7ABEF'])), min_size=1, max_size=5),
                      parts_with_special_xor())
    special_key = st.lists(st.sampled_from(SPECIAL_HALVES), min_size=1, max_size=3).map(''.join)
    master = st.one_of(st.sampled_from(['00' * 16, '0123456789abcdeffedcba9876543210']), special_key.filter(lambda k: len(k) >= 32),
                       st.sampled_from([16, 24]).flatmap(lambda k: st.binary(min_size=k, max_size=k)).flatmap(
                           lambda b: st.sampled_from([b.hex(), b.hex().upper()])))

    def body(v):
        ps, mk, kb, kl = v
        x = '%032x' % xor_parts(ps)
        special = x[:16] in SPECIAL_HALVES or x[16:] in SPECIAL_HALVES or x[:16] == x[16:]
        ctx.case(key=harness.digest(('k', ps, mk, kb, kl)), nontrivial=len(ps) >= 2,
                 labels=['keys-hyp', f'parts={len(ps)}', f'kcvlen={kl}', 'combined-key-special' if special else 'combined-key-ordinary'])
        if len(ctx.samples) < 5:
            ctx.sample({'components': ps, 'master_key_bytes': len(mk) // 2, 'kcv_of': kb.hex(), 'kcv_length': kl})
        res = check_combine(ps, mk)
        if res:
            ctx.fail(res[0], {'kind': 'combine', 'parts': ps, 'master': mk}, res[1])
        res = check_kcv(kb, kl)
        if res:
            ctx.fail(res[0], {'kind': 'kcv', 'key': kb, 'n': kl}, res[1])
    harness.drive(ctx, st.tuples(parts, master, st.one_of(st.sampled_from([8, 16, 24]).flatmap(lambda k: st.binary(min_size=k, max_size=k)),
                                                          special_key.map(bytes.fromhex)),
                                 st.one_of(st.just(6), uniform(1, 16))), body, n, salt='keys')
    ctx.floor('combined-key-special', 0.15, 'keys-hyp')


def tasks(tier, seed):
    full = tier == 'thorough'
    t = []
    for i in range(2 if not full else 8):
        t.append(('second_scan', dict(per_class=5 if not full else 30, nkeys=2 if not full else 4)))
    for i in range(8 if not full else 12):
        t.append(('hyp_pvv', dict(n=300 if not full else 1500)))
    for i in range(6 if not full else 8):
        t.append(('hyp_keys', dict(n=300 if not full else 1500)))
    return t


def replay(case):
    refcrypto.selftest()
    if case['kind'] == 'pvv':
        return check_pvv(case['pin'], case['key'], case['index'], case['pan'])
    if case['kind'] == 'kcv':
        return check_kcv(case['key'], case['n'])
    return check_combine(list(case['parts']), case['master'])
