"""C15 - Luhn check digits are correct and validation really rejects bad numbers."""
import itertools
import json
import os
import subprocess
import sys

from hypothesis import strategies as st

from vlib import harness
from vlib.repo import REPO, HarnessError
from cardutil import card

LEVEL = 'exploration'
TECHNIQUE = 'exhaustive enumeration of short digit strings + Hypothesis sampling of long ones against a textbook Luhn reference; rejection batch re-run in python / -O / -OO subprocesses'
EXHAUSTIVE = True
RULE = ('Every digit string up to the tier bound is enumerated (quick: length 0..5, thorough: 0..7) and longer ones '
        '(8..40 digits, blanks/hyphens interleaved) are drawn by Hypothesis. Oracle: textbook Luhn digit; '
        'add_check_digit(x) must validate; each single-digit substitution and each adjacent transposition of '
        'different digits other than 0/9 of the valid number must be rejected (an exception). The same rejection '
        'batch is executed in python, python -O and python -OO subprocesses. Non-trivial = payload of >= 2 digits; '
        'distinct by payload string (enumeration index) or digest.')
ASSUMPTIONS = ['"digit string" means ASCII digits; separators (blank, hyphen) may appear anywhere except as the last character',
               'rejection = validate_check_digit raises (documented: AssertionError; any exception is accepted as a rejection)',
               'every invalid number is validated twice in a row (the verdict must not depend on what was validated before)',
               'reference Luhn is the textbook algorithm written independently here']

DIG = '0123456789'


def ref_luhn(payload):
    ds = [ord(c) - 48 for c in payload if c in DIG]
    s = 0
    dbl = True
    for d in reversed(ds):
        if dbl:
            d *= 2
            if d > 9:
                d -= 9
        s += d
        dbl = not dbl
    return DIG[(10 - s % 10) % 10]


def rejects(number):
    try:
        card.validate_check_digit(number)
    except Exception:  # documented: AssertionError
        return True
    return False


def mutations(valid):
    """(kind, mutated) for all single digit substitutions and admissible adjacent transpositions"""
    pos = [i for i, c in enumerate(valid) if c in DIG]
    for i in pos:
        for d in DIG:
            if d != valid[i]:
                yield 'subst', valid[:i] + d + valid[i + 1:]
    for a, b in zip(pos, pos[1:]):
        x, y = valid[a], valid[b]
        if x != y and {x, y} != {'0', '9'}:
            lst = list(valid)
            lst[a], lst[b] = y, x
            yield 'transp', ''.join(lst)


def check_payload(payload, deep=True):
    """returns list of (signature, message)"""
    out = []
    want = ref_luhn(payload)
    try:
        got = card.calculate_check_digit(payload)
    except Exception as ex:
        return [('calc-raises:' + type(ex).__name__, f'calculate_check_digit({payload!r}) raised {ex!r}')]
    if got != want:
        out.append(('calc-mismatch', f'calculate_check_digit({payload!r}) = {got!r}, Luhn digit is {want!r}'))
    try:
        full = card.add_check_digit(payload)
    except Exception as ex:
        return out + [('add-raises:' + type(ex).__name__, f'add_check_digit({payload!r}) raised {ex!r}')]
    if full != payload + want:
        out.append(('add-mismatch', f'add_check_digit({payload!r}) = {full!r}, expected {payload + want!r}'))
    if rejects(full):
        out.append(('valid-rejected', f'validate_check_digit rejects add_check_digit({payload!r}) = {full!r}'))
    valid = payload + want
    if rejects(valid):
        if not out:
            out.append(('valid-rejected', f'validate_check_digit rejects the valid number {valid!r}'))
    if deep:
        for kind, m in mutations(valid):
            if not rejects(m):
                out.append((kind + '-accepted', f'{m!r} ({kind} of valid {valid!r}) is accepted by validate_check_digit'))
                break
            # the verdict on a number is a function of the number: asked again straight away, and again after a valid
            # number went through, the same invalid number must still be rejected
            if not rejects(m):
                out.append((kind + '-accepted:on-repeat', f'{m!r} ({kind} of valid {valid!r}) is rejected once and accepted when validated again straight away'))
                break
        else:
            last = None
            for kind, m in mutations(valid):
                last = (kind, m)
            if last and (rejects(valid) or not rejects(last[1])):
                out.append((last[0] + '-accepted:after-valid', f'{last[1]!r} is accepted (or valid {valid!r} rejected) when validated after other numbers'))
    return out


# ---------------------------------------------------------------------------------------------- tasks

def enum_digits(ctx, length, first, deep):
    """all digit strings of `length` whose first digit is in `first` (or the empty string)"""
    if length == 0:
        payloads = ['']
    else:
        payloads = (f + ''.join(t) for f in first for t in itertools.product(DIG, repeat=length - 1))
    n = 0
    for p in payloads:
        n += 1
        for sig, msg in check_payload(p, deep):
            ctx.report(sig, {'kind': 'payload', 'payload': p, 'deep': deep}, msg)
    ctx.bulk(n, nontrivial_distinct=n if length >= 2 else 0, label=f'enumerated-len{length}' + ('-deep' if deep else ''))
    if first in ('0', '') or first == DIG:
        ctx.enumerated(f'all digit strings of length {length}' + (' with every substitution/transposition' if deep else ''))
    if length >= 2 and first[0] in '05':
        ctx.sample({'payload': first[0] + '1' * (length - 1), 'check_digit': ref_luhn(first[0] + '1' * (length - 1))})


SEP_TEXT = st.lists(st.one_of(st.sampled_from(DIG), st.sampled_from(DIG), st.sampled_from(DIG), st.sampled_from(' -')),
                    min_size=8, max_size=44).map(''.join)


def hyp_long(ctx, n):
    def body(payload):
        digits = sum(c in DIG for c in payload)
        if digits > 40:
            payload = payload[:40]
            digits = sum(c in DIG for c in payload)
        ctx.case(key=payload, nontrivial=digits >= 2,
                 labels=['long', 'with-separators' if any(c in ' -' for c in payload) else 'digits-only'])
        if len(ctx.samples) < 3:
            ctx.sample({'payload': payload, 'check_digit': ref_luhn(payload)})
        for sig, msg in check_payload(payload, True):
            ctx.fail(sig, {'kind': 'payload', 'payload': payload, 'deep': True}, msg)
    harness.drive(ctx, SEP_TEXT, body, n, salt='long')


MODE_SCRIPT = r'''
import sys, json
sys.path.insert(0, sys.argv[1])
sys.dont_write_bytecode = True
import os
import cardutil, cardutil.card as card
assert_path = os.path.realpath(cardutil.__file__)
if not assert_path.startswith(os.path.realpath(sys.argv[1]) + os.sep):
    print(json.dumps({'error': 'wrong import ' + assert_path})); sys.exit(0)
batch = json.load(sys.stdin)
def rejects(n):
    try:
        card.validate_check_digit(n)
    except Exception:
        return True
    return False
print(json.dumps({'accepted_invalid': [n for n in batch['invalid'] if not rejects(n) or not rejects(n)],
                  'rejected_valid': [n for n in batch['valid'] if rejects(n)],
                  'optimize': sys.flags.optimize}))
'''


def run_mode(flag, invalid, valid):
    cmd = [sys.executable] + ([flag] if flag else []) + ['-B', '-c', MODE_SCRIPT, REPO]
    env = dict(os.environ, PYTHONDONTWRITEBYTECODE='1')
    env.pop('PYTHONOPTIMIZE', None)
    p = subprocess.run(cmd, input=json.dumps({'invalid': invalid, 'valid': valid}), capture_output=True,
                       text=True, env=env, timeout=600)
    if p.returncode != 0:
        raise HarnessError(f'mode subprocess {flag!r} failed: {p.stderr[-500:]}')
    res = json.loads(p.stdout.strip().splitlines()[-1])
    if 'error' in res:
        raise HarnessError(res['error'])
    want = {'': 0, '-O': 1, '-OO': 2}[flag]
    if res['optimize'] != want:
        raise HarnessError(f'subprocess optimisation level {res["optimize"]} != {want}')
    return res


def check_modes(flag, invalid, valid):
    res = run_mode(flag, invalid, valid)
    out = []
    name = flag or 'normal'
    if res['accepted_invalid']:
        worst = min(res['accepted_invalid'], key=len)
        out.append((f'mode{name}:invalid-accepted',
                    f'python {flag}: validate_check_digit accepts {len(res["accepted_invalid"])} of {len(invalid)} '
                    f'invalid numbers, e.g. {worst!r}', worst))
    if res['rejected_valid']:
        worst = min(res['rejected_valid'], key=len)
        out.append((f'mode{name}:valid-rejected', f'python {flag}: validate_check_digit rejects valid {worst!r}', worst))
    return out


def modes(ctx, n_invalid, n_valid):
    invalid, valid = [], []

    pool = []

    def body(payload):
        v = payload + ref_luhn(payload)
        valid.append(v)
        pool.extend(m for _, m in mutations(v))
        if len(payload) >= 8 and len(valid) % 3 == 0:
            # the same number as people write it: groups separated by blanks or hyphens
            sep = ' ' if len(valid) % 2 else '-'
            grouped = sep.join(payload[i:i + 4] for i in range(0, len(payload), 4)) + ref_luhn(payload)
            valid.append(grouped)
            pool.extend(m for _, m in mutations(grouped))
    # deterministic batch: short systematic payloads plus seed-derived long ones
    for L in range(1, 5):
        for t in itertools.islice(itertools.product(DIG, repeat=L), 0, None, 7):
            body(''.join(t))
    harness.drive(ctx, st.text(alphabet=DIG, min_size=5, max_size=39), body, 300, salt='modes-batch')
    pool = sorted(set(pool))
    stride = max(1, len(pool) // n_invalid)
    invalid = pool[::stride][:n_invalid]
    valid = sorted(set(valid))
    valid = valid[::max(1, len(valid) // n_valid)][:n_valid]
    if len(invalid) < 50 or len(valid) < 20:
        raise HarnessError('mode batch too small')
    for flag in ('', '-O', '-OO'):
        for sig, msg, number in check_modes(flag, invalid, valid):
            ctx.report(sig, {'kind': 'mode', 'flag': flag, 'invalid': [number] if 'invalid' in sig else [],
                             'valid': [number] if 'valid-rej' in sig else []}, msg)
        ctx.bulk(len(invalid) + len(valid), 0, label='mode:' + (flag or 'normal'))
        for x in invalid + valid:
            ctx.nontrivial.add(harness.digest((flag, x)))
    ctx.sample({'mode_batch': {'flags': ['', '-O', '-OO'], 'invalid': invalid[:3], 'valid': valid[:3]}}, force=True)


def tasks(tier, seed):
    top = 5 if tier == 'quick' else 7
    deep_top = 5 if tier == 'quick' else 6
    t = []
    for L in range(0, top + 1):
        deep = L <= deep_top
        if L <= 3:
            t.append(('enum_digits', dict(length=L, first=DIG if L else '', deep=deep)))
        else:
            for f in DIG:
                t.append(('enum_digits', dict(length=L, first=f, deep=deep)))
    n = 400 if tier == 'quick' else 1500
    for i in range(4 if tier == 'quick' else 16):
        t.append(('hyp_long', dict(n=n)))
    t.append(('modes', dict(n_invalid=2000, n_valid=200)))
    return t


def replay(case):
    if case['kind'] == 'payload':
        res = check_payload(case['payload'], case.get('deep', True))
        return res[0] if res else None
    if case['kind'] == 'mode':
        res = check_modes(case['flag'], case['invalid'], case['valid'])
        return (res[0][0], res[0][1]) if res else None
    raise HarnessError('unknown replay kind')
