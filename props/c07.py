"""C07 - Decoding never hangs or crashes: any bytes give a result or the library error."""
import contextlib
import io
import json
import os
import shutil
import subprocess
import sys
import tempfile

from hypothesis import strategies as st

from vlib import harness, gen_iso, codecs_, refcodec, refvbs, steps, mutate
from vlib.strat import uniform
from vlib.harness import where
from cardutil import iso8583, mciipm

LEVEL = 'fault_enumeration'
EXHAUSTIVE = True
TECHNIQUE = 'fault enumeration (all 256 substitutions at every length-prefix / PDS-length / bitmap / TLV-length byte of generated messages), Hypothesis multi-point mutations and random bytes, mutated files through the readers and the command-line tools, atheris coverage-guided fuzzing (thorough); deterministic step budget as the hang oracle'
RULE = ('Entry points: iso8583.loads (packaged and generated configurations; ascii, latin_1, cp500, cp1252, cp864 and in the '
        'thorough tier every single-byte codec; both bitmap renderings), list(VbsReader) / list(IpmReader) on VBS and 1014 '
        'files, mci_ipm_to_csv.cli_run and mideu extract on real files. Inputs: random bytes (bare and behind a valid '
        'MTI+bitmap); every one of the 256 byte values at every byte of every length prefix, PDS sub-length, bitmap and TLV '
        'length of generated valid messages; lists of 1..4 mutations (substitute, numeral replacement, bit flip, truncate, '
        'extend, insert, delete, splice); files with mutated records and prefixes. Oracle: a dict or Iso8583DataError '
        '(MciIpmDataError / clean end for readers; return for the tools) and the step budget 5000 + 50*len(input) executed '
        'lines is not exceeded. Non-trivial = the input passes the header stage and reaches field parsing; distinct by digest '
        'of (entry, configuration, codec, rendering, bytes).')
ASSUMPTIONS = ['the field configuration is the caller\'s and is well-formed (field_length present, known field types)',
               'termination is judged by executed Python lines in cardutil.iso8583 / cardutil.mciipm; the only input-dependent loop in C code is the DE43 regular expression, which is bounded by a 10 s wall-clock limit per call that counts only when the same input exceeds it again alone in a fresh process (a normal call takes under 5 ms)',
               'for the command-line tools only exceptions raised inside iso8583.py / mciipm.py count (CSV / output-encoding errors are outside the property)']

PACKAGED = gen_iso.packaged_config()
C07_CODECS = ['ascii', 'latin_1', 'cp500', 'cp1252', 'cp864']
HEX_ATTACK = [0x20, 0x09, 0x0a, 0x0d, 0x0b, 0x0c, 0x00, 0x5f, 0x2d, 0x2b, 0x78, 0x47, 0x30, 0x46, 0x66, 0xff]


class Outcome:
    __slots__ = ('kind', 'value', 'ex')

    def __init__(self, kind, value=None, ex=None):
        self.kind, self.value, self.ex = kind, value, ex


def call_loads(data, codec, config, hexbm, default_cfg=False):
    kw = dict(encoding=codec, hex_bitmap=hexbm)
    if not default_cfg:
        kw['iso_config'] = gen_iso.same_object(config, len(data))
    try:
        with steps.budget(steps.limit_for(len(data))):
            return Outcome('ok', iso8583.loads(data, **kw))
    except iso8583.Iso8583DataError as ex:
        return Outcome('lib', ex=ex)
    except steps.StepBudgetExceeded as ex:
        return Outcome('hang', ex=ex)
    except steps.WallClockExceeded as ex:
        case = {'entry': 'loads', 'config': None if default_cfg else config, 'codec': codec, 'hex': hexbm, 'data': data}
        if confirm_slow(case):
            return Outcome('hang', ex=ex)
        raise harness.HarnessError(f'inconclusive: loads exceeded {steps.WALL_LIMIT}s of wall clock once but finished when re-run alone: {data[:80]!r}')
    except Exception as ex:  # noqa
        return Outcome('crash', ex=ex)


def confirm_slow(case):
    """a wall-clock trip is only believed if the same input again fails to finish within the limit when run alone in a
    fresh process (a call normally takes milliseconds: scheduling noise cannot produce a 10 s stall twice, an exponential
    regular expression does)"""
    if os.environ.get('VERIF_NO_CONFIRM') == '1':
        return True
    d = tempfile.mkdtemp(prefix='cardutil-verif-slow-')
    try:
        path = os.path.join(d, 'case.json')
        with open(path, 'w') as f:
            json.dump({'property': 'C07', 'case': harness.enc(case)}, f)
        env = dict(os.environ, VERIF_NO_CONFIRM='1', VERIF_WALL_LIMIT=str(steps.WALL_LIMIT), VERIF_OUT=d)
        run_py = os.path.join(harness.VERIF_DIR, 'run.py')
        try:
            p = subprocess.run([sys.executable, run_py, 'C07', '--replay', path], env=env, capture_output=True, text=True,
                               timeout=steps.WALL_LIMIT * 12 + 60)
        except subprocess.TimeoutExpired:
            return True
        return p.returncode == 1
    finally:
        shutil.rmtree(d, ignore_errors=True)


def judge_loads(data, codec, config, hexbm, default_cfg=False):
    o = call_loads(data, codec, config, hexbm, default_cfg)
    if o.kind == 'ok':
        if not isinstance(o.value, dict):
            return 'loads:returned-non-dict', f'loads returned {type(o.value).__name__}'
        return None
    if o.kind == 'lib':
        return None
    if o.kind == 'hang' and isinstance(o.ex, steps.WallClockExceeded):
        return 'loads:non-termination@wall-clock', (f'loads did not return within {steps.WALL_LIMIT}s (nor when re-run alone '
                                                    f'in a fresh process) on {len(data)} bytes {data[:100]!r} codec={codec} hex={hexbm}')
    if o.kind == 'hang':
        return 'loads:non-termination@' + str(o.ex).split(':')[0], (
            f'loads exceeded the step budget ({steps.limit_for(len(data))} lines) on {len(data)} bytes {data[:80]!r} '
            f'codec={codec} hex={hexbm} at {o.ex}')
    return f'loads:{type(o.ex).__name__}@{where(o.ex)}', (f'loads raised {o.ex!r} (not the library error) on '
                                                         f'{data[:100]!r} codec={codec} hex={hexbm}')


def reached(config, codec, hexbm, data):
    r = refcodec.decode(config, codec, hexbm, data, strict=False, de43=False)
    return r.reached


def labels_reached(rs):
    labs = []
    if 'fields' in rs:
        labs.append('past-header')
    if 'pds' in rs:
        labs.append('reached-pds-walker')
    if 'icc' in rs:
        labs.append('reached-icc-walker')
    return labs


def codec_choice(tier):
    if tier == 'quick':
        return st.sampled_from(C07_CODECS)
    return st.one_of(st.sampled_from(C07_CODECS), st.sampled_from(codecs_.universe()))


@st.composite
def valid_cases(draw, tier, rich=False):
    codec = draw(codec_choice(tier))
    hexbm = draw(st.booleans())
    gen = draw(st.sampled_from([True, False, False] if rich else [True, False]))
    config = draw(gen_iso.configs(max_bits=10, kinds=gen_iso.KINDS + ['pds', 'icc', 'fixed_decimal'])) if gen else PACKAGED
    msg = draw(gen_iso.messages(config, codec, exact=False, pds_mode='keys', min_elements=1 if rich else 0, rich=rich))
    data = refcodec.encode(config, codec, hexbm, msg)
    return config, codec, hexbm, data, gen


# ------------------------------------------------------------------------------------ loads: random bytes

def hyp_random(ctx, n):
    @st.composite
    def cases(draw):
        codec = draw(codec_choice(ctx.tier))
        hexbm = draw(st.booleans())
        gen = draw(st.booleans())
        config = draw(gen_iso.configs(max_bits=8)) if gen else PACKAGED
        if draw(st.booleans()):
            data = draw(st.binary(max_size=64))
        else:
            bits = draw(st.lists(st.sampled_from(sorted(int(b) for b in config)), max_size=4, unique=True))
            bm = refcodec.bitmap_bytes(bits)
            data = draw(gen_iso.MTI).encode(codec) + (refcodec.hex_render(bm).encode() if hexbm else bm) + draw(st.binary(max_size=80))
        return config, codec, hexbm, data, gen

    def body(v):
        config, codec, hexbm, data, gen = v
        res = judge_loads(data, codec, config, hexbm, default_cfg=not gen)
        if res and res[0].endswith('@wall-clock'):
            ctx.fail(res[0], {'entry': 'loads', 'config': config if gen else None, 'codec': codec, 'hex': hexbm, 'data': data}, res[1])
        rs = reached(config, codec, hexbm, data)
        ctx.case(key=harness.digest(('rand', config if gen else 0, codec, hexbm, data)), nontrivial='fields' in rs,
                 labels=['loads', 'random-bytes'] + labels_reached(rs))
        if res:
            ctx.fail(res[0], {'entry': 'loads', 'config': config if gen else None, 'codec': codec, 'hex': hexbm, 'data': data}, res[1])
    harness.drive(ctx, cases(), body, n, salt='random')


# ------------------------------------------------------------------------------------ loads: exhaustive substitution

def _collect(ctx, res, case):
    """enumeration-style collection, except that a confirmed wall-clock hang stops the task (ctx.fail raises AbortRun)"""
    if res[0].endswith('@wall-clock'):
        ctx.fail(res[0], case, res[1])
    ctx.report(res[0], case, res[1])


def subst_sweep(ctx, nmsgs):
    def body(v):
        config, codec, hexbm, data, gen = v
        frames = mutate.frames_of(config, codec, hexbm, data)
        positions = []
        for kind, bit, s, e in frames:
            if kind in ('len', 'pds_len', 'tlv_len', 'bitmap'):
                positions += list(range(s, e))
        n = nt = 0
        for pos in positions:
            for val in range(256):
                if data[pos] == val:
                    continue
                mutated = data[:pos] + bytes([val]) + data[pos + 1:]
                n += 1
                res = judge_loads(mutated, codec, config, hexbm, default_cfg=not gen)
                if res:
                    _collect(ctx, res, {'entry': 'loads', 'config': config if gen else None, 'codec': codec, 'hex': hexbm, 'data': mutated})
        if hexbm:
            # pairs of bytes inside the 32-character hex bitmap: a reader that converts hex leniently (skipping blanks,
            # accepting separators) ends up with a bitmap of the wrong size
            hp = 0
            for pos in range(4, 35):
                for a in HEX_ATTACK:
                    for b in HEX_ATTACK:
                        mutated = data[:pos] + bytes([a, b]) + data[pos + 2:]
                        hp += 1
                        res = judge_loads(mutated, codec, config, hexbm, default_cfg=not gen)
                        if res:
                            _collect(ctx, res, {'entry': 'loads', 'config': config if gen else None, 'codec': codec, 'hex': hexbm, 'data': mutated})
            for a in HEX_ATTACK:
                for width in (4, 8, 16, 30, 32):
                    for start in (4, 5, 4 + 32 - width):
                        mutated = data[:start] + bytes([a]) * width + data[start + width:]
                        hp += 1
                        res = judge_loads(mutated, codec, config, hexbm, default_cfg=not gen)
                        if res:
                            _collect(ctx, res, {'entry': 'loads', 'config': config if gen else None, 'codec': codec, 'hex': hexbm, 'data': mutated})
            n += hp
            ctx.labels['hex-bitmap-pair-substitutions'] += hp
        # classify a sample of them for the reach labels (the full classification would double the cost)
        for pos in positions[::3]:
            rs = reached(config, codec, hexbm, data[:pos] + bytes([(data[pos] + 1) % 256]) + data[pos + 1:])
            for lab in labels_reached(rs):
                ctx.labels['subst-sample:' + lab] += 1
        ctx.bulk(n, nontrivial_distinct=0, label='loads-substitution')
        ctx.nontrivial.add(harness.digest(('subst', data)))
        ctx.labels['subst-positions'] += len(positions)
        ctx.labels['subst-base-messages'] += 1
        for kind, bit, s, e in frames:
            if kind in ('pds_len', 'tlv_len'):
                ctx.labels['subst-at:' + kind] += (e - s) * 255
        if len(ctx.samples) < 2:
            ctx.sample({'entry': 'loads', 'base_message': data[:120], 'codec': codec, 'hex_bitmap': hexbm,
                        'faults': f'all 255 other values at each of {len(positions)} numeral/bitmap bytes'})
    harness.drive(ctx, valid_cases(ctx.tier, rich=True), body, nmsgs, salt='subst', shrink=False)
    ctx.enumerated('all 256 byte values at every byte of every length prefix, PDS sub-length, bitmap and TLV length of each generated base message; for hex bitmaps also every pair from a 16-byte attack set at every offset and runs of 4..32 identical attack bytes')


# ------------------------------------------------------------------------------------ loads: multi-point mutations

def hyp_mutations(ctx, n):
    @st.composite
    def cases(draw):
        config, codec, hexbm, data, gen = draw(valid_cases(ctx.tier, rich=True))
        frames = mutate.frames_of(config, codec, hexbm, data)
        ops = draw(mutate.op_lists(len(data), frames, codec))
        return config, codec, hexbm, data, gen, ops, frames

    def body(v):
        config, codec, hexbm, data, gen, ops, frames = v
        mutated = mutate.apply(data, ops, frames, codec, hexbm)
        res = judge_loads(mutated, codec, config, hexbm, default_cfg=not gen)
        if res and res[0].endswith('@wall-clock'):
            ctx.fail(res[0], {'entry': 'loads', 'config': config if gen else None, 'codec': codec, 'hex': hexbm, 'data': mutated}, res[1])
        rs = reached(config, codec, hexbm, mutated)
        ctx.case(key=harness.digest(('mut', config if gen else 0, codec, hexbm, mutated)), nontrivial='fields' in rs,
                 labels=['loads', 'mutation'] + ['mutation:' + x for x in labels_reached(rs)] + ['op:' + o[0] for o in ops])
        if len(ctx.samples) < 5:
            ctx.sample({'entry': 'loads', 'codec': codec, 'hex_bitmap': hexbm, 'ops': ops, 'mutated': mutated[:100]})
        if res:
            ctx.fail(res[0], {'entry': 'loads', 'config': config if gen else None, 'codec': codec, 'hex': hexbm, 'data': mutated}, res[1])
    harness.drive(ctx, cases(), body, n, salt='mutations')
    ctx.floor('mutation:past-header', 0.20, 'mutation')
    ctx.floor('mutation:reached-pds-walker', 0.05, 'mutation')
    ctx.floor('mutation:reached-icc-walker', 0.03, 'mutation')


# ------------------------------------------------------------------------------------ readers on files

def run_reader(kind, data, blocked, codec, config):
    """kind: 'vbs' or 'ipm'. returns None or (sig, msg)"""
    f = io.BytesIO(data)
    try:
        with steps.budget(steps.limit_for(len(data)) * 2):
            if kind == 'vbs':
                reader = mciipm.VbsReader(f, blocked=blocked)
            else:
                reader = mciipm.IpmReader(f, encoding=codec, iso_config=config, blocked=blocked)
            count = 0
            for rec in reader:
                count += 1
                if count > len(data):
                    return f'{kind}-reader:runaway', f'{kind} reader delivered more records than the file has bytes'
    except mciipm.MciIpmDataError:
        return None
    except steps.StepBudgetExceeded as ex:
        return f'{kind}-reader:non-termination@{str(ex).split(":")[0]}', f'{kind} reader (blocked={blocked}) exceeded the step budget on a {len(data)}-byte file at {ex}'
    except steps.WallClockExceeded:
        case = {'entry': kind + '-reader', 'config': None if config is PACKAGED else config, 'codec': codec, 'data': data, 'blocked': blocked}
        if confirm_slow(case):
            return f'{kind}-reader:non-termination@wall-clock', f'{kind} reader (blocked={blocked}, codec={codec}) did not finish a {len(data)}-byte file within the wall-clock limit, twice'
        raise harness.HarnessError('inconclusive: reader exceeded the wall-clock limit once but finished when re-run alone')
    except Exception as ex:  # noqa
        return f'{kind}-reader:{type(ex).__name__}@{where(ex)}', f'{kind} reader (blocked={blocked}, codec={codec}) raised {ex!r} on a {len(data)}-byte file starting {data[:60]!r}'
    return None


@st.composite
def file_cases(draw, tier):
    codec = draw(st.sampled_from(['latin_1', 'cp500', 'ascii', 'cp1252']))
    gen = draw(uniform(0, 3)) == 0
    config = draw(gen_iso.configs(max_bits=8)) if gen else PACKAGED
    nrec = draw(uniform(0, 5))
    parts = []
    for _ in range(nrec):
        how = draw(st.sampled_from(['valid', 'valid', 'mutated', 'mutated', 'garbage']))
        if how == 'garbage':
            rec = draw(st.binary(min_size=0, max_size=60))
        else:
            msg = draw(gen_iso.messages(config, codec, exact=False, pds_mode='keys', min_elements=1))
            rec = refcodec.encode(config, codec, False, msg)
            if how == 'mutated':
                frames = mutate.frames_of(config, codec, False, rec)
                rec = mutate.apply(rec, draw(mutate.op_lists(len(rec), frames, codec, max_ops=2)), frames, codec, False)
        plen = draw(st.one_of(st.just(len(rec)), st.just(len(rec)), st.sampled_from([0, 1, len(rec) + 1, max(0, len(rec) - 1), 6000, 6001, 0x40404040, 0xffffffff, 0x7fffffff, 0x80000000]),
                              uniform(0, 7000)))
        parts.append(plen.to_bytes(4, 'big') + rec)
    tail = draw(st.sampled_from([b'\x00\x00\x00\x00', b'', b'\x00\x00', b'\x00\x00\x00\x00garbage', b'\x40' * 7]))
    stream = b''.join(parts) + tail
    blocked = draw(st.booleans())
    if blocked:
        data = refvbs.block(stream)
        how = draw(st.sampled_from(['whole', 'whole', 'cut', 'badtrailer', 'raw']))
        if how == 'cut' and data:
            data = data[:draw(uniform(0, len(data)))]
        elif how == 'badtrailer' and data:
            p = draw(uniform(0, len(data) // 1014 - 1)) * 1014 + draw(st.sampled_from([1012, 1013]))
            data = data[:p] + bytes([draw(uniform(0, 255))]) + data[p + 1:]
        elif how == 'raw':
            data = stream
    else:
        data = stream
        if draw(uniform(0, 3)) == 0 and data:
            data = data[:draw(uniform(0, len(data)))]
    return config, codec, data, blocked, gen


def hyp_files(ctx, n):
    def body(v):
        config, codec, data, blocked, gen = v
        ctx.case(key=harness.digest(('file', config if gen else 0, codec, data, blocked)), nontrivial=len(data) > 24,
                 labels=['file', 'file-1014' if blocked else 'file-vbs'])
        if len(ctx.samples) < 7 and len(data) > 24:
            ctx.sample({'entry': 'VbsReader+IpmReader', 'blocked': blocked, 'codec': codec, 'file_len': len(data), 'file_head': data[:60]})
        for kind in ('vbs', 'ipm'):
            res = run_reader(kind, data, blocked, codec, config)
            if res:
                ctx.fail(res[0], {'entry': kind + '-reader', 'config': config if gen else None, 'codec': codec, 'data': data, 'blocked': blocked}, res[1])
    harness.drive(ctx, file_cases(ctx.tier), body, n, salt='files')


# ------------------------------------------------------------------------------------ command-line tools

def run_cli(tool, data, blocked, ebcdic, scratch):
    """returns None or (sig, msg)"""
    from cardutil.cli import mci_ipm_to_csv, mideu
    path = os.path.join(scratch, 'in.ipm')
    out = os.path.join(scratch, 'out.csv')
    with open(path, 'wb') as f:
        f.write(data)
    sink = io.StringIO()
    try:
        with contextlib.redirect_stdout(sink), contextlib.redirect_stderr(sink), steps.budget(steps.limit_for(len(data)) * 3):
            if tool == 'mci_ipm_to_csv':
                argv = [path, '-o', out, '--in-encoding', 'cp500' if ebcdic else 'latin_1', '--out-encoding', 'utf8']
                if not blocked:
                    argv.append('--no1014blocking')
                mci_ipm_to_csv.cli_run(**vars(mci_ipm_to_csv.cli_parser().parse_args(argv)))   # what cli_entry does with sys.argv
            else:
                args = ['extract', path, '-s', 'ebcdic' if ebcdic else 'ascii', '--csvoutputfile', out]
                if not blocked:
                    args.append('--no1014blocking')
                mideu.cli_entry(args)
    except steps.StepBudgetExceeded as ex:
        return f'{tool}:non-termination', f'{tool} exceeded the step budget on a {len(data)}-byte file at {ex}'
    except steps.WallClockExceeded:
        case = {'entry': tool, 'data': data, 'blocked': blocked, 'ebcdic': ebcdic}
        if confirm_slow(case):
            return f'{tool}:non-termination@wall-clock', f'{tool} did not finish a {len(data)}-byte file within the wall-clock limit, twice'
        raise harness.HarnessError('inconclusive: tool exceeded the wall-clock limit once but finished when re-run alone')
    except SystemExit:
        return None
    except Exception as ex:  # noqa
        w = where(ex)
        if w.startswith('iso8583.') or w.startswith('mciipm.'):
            return f'{tool}:{type(ex).__name__}@{w}', f'{tool} stopped with a traceback ({ex!r}) instead of a diagnostic on a {len(data)}-byte file starting {data[:60]!r}'
        return ('outside', type(ex).__name__ + '@' + w)
    return None


def hyp_cli(ctx, n):
    scratch = tempfile.mkdtemp(prefix='cardutil-verif-c07-')
    try:
        def body(v):
            config, codec, data, blocked, gen = v
            ebcdic = codecs_.family(codec) == 'ebcdic'
            ctx.case(key=harness.digest(('cli', data, blocked, ebcdic)), nontrivial=len(data) > 24, labels=['cli'])
            for tool in ('mci_ipm_to_csv', 'mideu-extract'):
                res = run_cli(tool, data, blocked, ebcdic, scratch)
                if res and res[0] == 'outside':
                    ctx.labels['cli-exception-outside-decoding:' + res[1]] += 1
                elif res:
                    ctx.fail(res[0], {'entry': tool, 'data': data, 'blocked': blocked, 'ebcdic': ebcdic}, res[1])
        strat = file_cases(ctx.tier).filter(lambda v: not v[4])
        harness.drive(ctx, strat, body, n, salt='cli')
    finally:
        shutil.rmtree(scratch, ignore_errors=True)


# ------------------------------------------------------------------------------------ plumbing

def tasks(tier, seed):
    full = tier == 'thorough'
    t = []
    for i in range(3 if not full else 8):
        t.append(('hyp_random', dict(n=300 if not full else 3000)))
    for i in range(6 if not full else 16):
        t.append(('subst_sweep', dict(nmsgs=3 if not full else 13)))
    for i in range(5 if not full else 16):
        t.append(('hyp_mutations', dict(n=300 if not full else 4000)))
    for i in range(3 if not full else 8):
        t.append(('hyp_files', dict(n=150 if not full else 1500)))
    for i in range(3 if not full else 4):
        t.append(('hyp_cli', dict(n=60 if not full else 300)))
    if full:
        from props import c07_fuzz
        t += c07_fuzz.tasks(seed)
    return t


def replay(case):
    entry = case['entry']
    config = case.get('config') or PACKAGED
    if entry == 'loads':
        return judge_loads(case['data'], case['codec'], config, case['hex'], default_cfg=case.get('config') is None)
    if entry in ('vbs-reader', 'ipm-reader'):
        return run_reader(entry[:3], case['data'], case['blocked'], case['codec'], config)
    scratch = tempfile.mkdtemp(prefix='cardutil-verif-c07-')
    try:
        res = run_cli(entry, case['data'], case['blocked'], case['ebcdic'], scratch)
        return None if (res and res[0] == 'outside') else res
    finally:
        shutil.rmtree(scratch, ignore_errors=True)


from props.c07_fuzz import fuzz_shard  # noqa: E402,F401  (task function of the thorough tier)
