"""C03 - VBS framing: any record list survives write then read, with byte-exact layout."""
import io

from hypothesis import strategies as st

from vlib import harness, refvbs
from vlib.strat import uniform
from vlib.harness import exc_sig
from cardutil import mciipm
from cardutil import config as cfgmod

LEVEL = 'exploration'
EXHAUSTIVE = True
TECHNIQUE = 'exhaustive single-record length sweep + Hypothesis record lists, byte-for-byte against an independent VBS/1014 reference, four writer paths and two reader paths'
RULE = ('Record lists are written through VbsWriter.write, write_many, the context manager and vbs_list_to_bytes (each '
        'output is judged on its own), compared with the reference layout (unblocked: exact bytes; blocked: whole '
        '1014 blocks, @@ trailers, payload = reference stream then 0x40 fill) and read back through VbsReader and '
        'vbs_bytes_to_list. Enumerated: every single-record length 1..6000 blocked and unblocked, two-record files with '
        'the first length 990..1030. Hypothesis: 1..60 records, boundary-biased lengths, contents position-coded / '
        '0x00 / 0x40 / prefix-shaped / random; files of 1100..6600 short records. Non-trivial = blocked, or >1 record, or a record >= 1008 bytes; distinct by '
        '(length list, content classes, blocked).')
ASSUMPTIONS = ['records are non-empty and at most MAX_VBS_RECORD_LENGTH bytes (the stated domain)',
               'reference framing in vlib/refvbs.py is written from the format description in the mciipm module docstring']

POS = b''.join(i.to_bytes(3, 'big') for i in range(1, 7000))  # position-coded bytes, never starts with 0x00 0x00 0x00 0x00


def content(kind, n, salt=b''):
    if kind == 'pos':
        return POS[:n]
    if kind == 'zero':
        return b'\x00' * n
    if kind == 'fill':
        return b'\x40' * n
    if kind == 'prefix':
        return (b'\x00\x00\x00\x05' * (n // 4 + 1))[:n]
    if kind == 'rand':
        s = salt or b'\x01'
        return (s * (n // len(s) + 1))[:n]
    raise ValueError(kind)


def write_paths(records, blocked):
    """bytes from each of the four documented ways to write; returns dict name -> bytes"""
    out = {}
    f = io.BytesIO()
    w = mciipm.VbsWriter(f, blocked=blocked)
    for r in records:
        w.write(r)
    w.close()
    out['write'] = f.getvalue()
    f = io.BytesIO()
    w = mciipm.VbsWriter(f, blocked=blocked)
    w.write_many(iter(records))
    w.close()
    out['write_many'] = f.getvalue()
    f = io.BytesIO()
    with mciipm.VbsWriter(f, blocked=blocked) as w:
        for r in records:
            w.write(r)
    out['with'] = f.getvalue()
    out['vbs_list_to_bytes'] = mciipm.vbs_list_to_bytes(records, blocked=blocked)
    if not blocked:
        # the documented default is unblocked: the same calls without the keyword
        out['vbs_list_to_bytes-default'] = mciipm.vbs_list_to_bytes(records)
        f = io.BytesIO()
        w = mciipm.VbsWriter(f)
        w.write_many(records)
        w.close()
        out['VbsWriter-default'] = f.getvalue()
    return out


def oracle(records, blocked, paths=True):
    """None or (signature, message)"""
    stream = refvbs.vbs(records)
    try:
        produced = write_paths(records, blocked) if paths else {
            'vbs_list_to_bytes': mciipm.vbs_list_to_bytes(records, blocked=blocked)}
    except Exception as ex:
        return exc_sig('write-raises', ex), f'writing {len(records)} records (blocked={blocked}) raised {ex!r}'
    lens = [len(r) for r in records]
    for name, data in produced.items():
        if blocked:
            why = refvbs.check_blocked(data, stream)
            if why:
                return f'layout-blocked:{name}', f'lengths {lens[:8]}: {why}'
        elif data != stream:
            return f'layout-unblocked:{name}', (f'lengths {lens[:8]}: file is {len(data)} bytes, reference {len(stream)}; '
                                               f'first difference at {_first_diff(data, stream)}')
    # every writer path was validated against the layout on its own (a blocked file may or may not end in an all-fill block,
    # so the paths need not be byte-identical); each distinct output must read back
    first = next(iter(produced.values()))
    for data in {bytes(d) for d in produced.values()}:
        try:
            back = list(mciipm.VbsReader(io.BytesIO(data), blocked=blocked))
            back2 = mciipm.vbs_bytes_to_list(data, blocked=blocked)
        except Exception as ex:
            return exc_sig('read-raises', ex), f'reading back lengths {lens[:8]} blocked={blocked} raised {ex!r}'
        if back != list(records):
            return 'readback:VbsReader', f'lengths {lens[:8]} blocked={blocked}: read back {[len(r) for r in back][:8]}' + _diff_records(records, back)
        if back2 != list(records):
            return 'readback:vbs_bytes_to_list', f'lengths {lens[:8]} blocked={blocked}: read back {[len(r) for r in back2][:8]}'
    if not blocked:
        try:
            back3 = mciipm.vbs_bytes_to_list(first)
            back4 = list(mciipm.VbsReader(io.BytesIO(first)))
        except Exception as ex:
            return exc_sig('read-raises-default', ex), f'reading back lengths {lens[:8]} with default arguments raised {ex!r}'
        if back3 != list(records) or back4 != list(records):
            return 'readback:default-arguments', (f'lengths {lens[:8]}: unblocked data read with default arguments gives '
                                                  f'{[len(r) for r in back3][:8]} / {[len(r) for r in back4][:8]}')
    return None


def _first_diff(a, b):
    for i in range(min(len(a), len(b))):
        if a[i] != b[i]:
            return i
    return min(len(a), len(b))


def _diff_records(want, got):
    for i, (a, b) in enumerate(zip(want, got)):
        if a != b:
            return f'; record {i + 1} differs (len {len(a)} vs {len(b)}, first diff {_first_diff(a, b)})'
    return f'; {len(want)} written, {len(got)} read'


def build(spec):
    return [content(kind, n, salt) for (n, kind, salt) in spec]


def nontrivial(spec, blocked):
    return blocked or len(spec) > 1 or any(n >= 1008 for n, _, _ in spec)


# ------------------------------------------------------------------------------------- tasks

def sweep_single(ctx, lo, hi, blocked):
    n = 0
    for ln in range(lo, hi):
        for kind in (('pos',) if ln % 97 else ('pos', 'zero', 'fill', 'prefix')):
            spec = [(ln, kind, b'')]
            n += 1
            res = oracle(build(spec), blocked, paths=(ln % 50 == 0 or 1000 <= ln <= 1030 or ln >= 5990 or kind != 'pos'))
            if res:
                ctx.report(res[0], {'spec': spec, 'blocked': blocked}, res[1])
    ctx.bulk(n, nontrivial_distinct=sum(1 for ln in range(lo, hi) if blocked or ln >= 1008),
             label='single-blocked' if blocked else 'single-unblocked')
    ctx.enumerated(f'single-record files, every length 1..6000, blocked={blocked}')
    if lo <= 1008 < hi:
        ctx.sample({'records': [{'len': 1008, 'content': 'position-coded'}], 'blocked': blocked})


def sweep_pairs(ctx, blocked):
    n = 0
    for a in range(990, 1031):
        for b in (1, 2, 3, 4, 5, 1003, 1004, 1008, 1012, 1013, 2024, 6000):
            for kinds in (('pos', 'pos'), ('fill', 'zero'), ('prefix', 'fill')):
                spec = [(a, kinds[0], b''), (b, kinds[1], b'')]
                n += 1
                res = oracle(build(spec), blocked, paths=False)
                if res:
                    ctx.report(res[0], {'spec': spec, 'blocked': blocked}, res[1])
    ctx.bulk(n, nontrivial_distinct=n, label='pair-blocked' if blocked else 'pair-unblocked')
    ctx.enumerated(f'two-record files, first length 990..1030 x 12 second lengths x 3 content pairs, blocked={blocked}')
    ctx.sample({'records': [{'len': 1008, 'content': 'fill'}, {'len': 4, 'content': 'zero'}], 'blocked': blocked})


BOUNDARY = [1, 2, 3, 4, 5, 1003, 1004, 1007, 1008, 1009, 1011, 1012, 1013, 1016, 2020, 2024, 2028, 5999, 6000]


def spec_strategy(maxlen=6000, max_records=60):
    bl = [b for b in BOUNDARY if b <= maxlen] + [maxlen]
    length = st.one_of(st.sampled_from(bl), uniform(1, maxlen), uniform(1, min(64, maxlen)))
    rec = st.tuples(length, st.sampled_from(['pos', 'zero', 'fill', 'prefix', 'rand']), st.binary(min_size=1, max_size=9))
    return st.tuples(st.lists(rec, min_size=1, max_size=max_records), st.booleans())


def hyp_lists(ctx, n, maxlen=6000):
    saved = cfgmod.config.get('MAX_VBS_RECORD_LENGTH')
    cfgmod.config['MAX_VBS_RECORD_LENGTH'] = maxlen
    try:
        def body(v):
            spec, blocked = v
            nt = nontrivial(spec, blocked)
            ctx.case(key=harness.digest((spec, blocked, maxlen)), nontrivial=nt,
                     labels=['hyp', 'blocked' if blocked else 'unblocked',
                             'multi-record' if len(spec) > 1 else 'one-record',
                             'spans-blocks' if sum(n + 4 for n, _, _ in spec) > 1012 else 'within-one-block',
                             f'maxlen={maxlen}'])
            if len(ctx.samples) < 4:
                ctx.sample({'records': [{'len': n, 'content': k} for n, k, _ in spec[:6]], 'n_records': len(spec),
                            'blocked': blocked, 'max': maxlen})
            res = oracle(build(spec), blocked, paths=True)
            if res:
                ctx.fail(res[0], {'spec': spec, 'blocked': blocked, 'maxlen': maxlen}, res[1])
        harness.drive(ctx, spec_strategy(maxlen), body, n, salt=f'lists-{maxlen}')
    finally:
        cfgmod.config['MAX_VBS_RECORD_LENGTH'] = saved


def many_records(ctx, n):
    """files of 1100..6600 short records: the short spec is repeated (kept as `repeat` in the case so that replays stay small)"""
    def body(v):
        (spec, blocked), target = v
        repeat = -(-target // len(spec))
        ctx.case(key=harness.digest((spec, blocked, repeat)), nontrivial=True,
                 labels=['many-records', 'blocked' if blocked else 'unblocked', 'records>=%d' % (1000 if target < 3000 else 3000)])
        res = oracle(build(spec) * repeat, blocked, paths=True)
        if res:
            ctx.fail(res[0], {'spec': spec, 'blocked': blocked, 'repeat': repeat}, res[1])
    harness.drive(ctx, st.tuples(spec_strategy(48, 12), st.sampled_from([1100, 1100, 3300, 6600])), body, n, salt='many')


def tasks(tier, seed):
    t = [('many_records', dict(n=6 if tier == 'quick' else 60)) for _ in range(2)]
    for blocked in (False, True):
        for lo in range(1, 6001, 500):
            t.append(('sweep_single', dict(lo=lo, hi=min(lo + 500, 6001), blocked=blocked)))
        t.append(('sweep_pairs', dict(blocked=blocked)))
    if tier == 'quick':
        for i in range(6):
            t.append(('hyp_lists', dict(n=120)))
        for m in (50, 20000):
            # "the configured maximum": the application changed it after the library was imported
            t.append(('hyp_lists', dict(n=60, maxlen=m)))
    else:
        for i in range(12):
            t.append(('hyp_lists', dict(n=600)))
        for m in (50, 20000):
            for i in range(2):
                t.append(('hyp_lists', dict(n=400, maxlen=m)))
    return t


def replay(case):
    spec = [tuple(x) if not isinstance(x, tuple) else x for x in case['spec']]
    maxlen = case.get('maxlen', 6000)
    saved = cfgmod.config.get('MAX_VBS_RECORD_LENGTH')
    cfgmod.config['MAX_VBS_RECORD_LENGTH'] = maxlen
    try:
        return oracle(build(spec) * case.get('repeat', 1), case['blocked'], paths=True)
    finally:
        cfgmod.config['MAX_VBS_RECORD_LENGTH'] = saved
