"""C04 - 1014 blocking: output is well-formed and data-exact for every write sequence."""
import io

from hypothesis import strategies as st

from vlib import harness, refvbs
from vlib.strat import uniform
from vlib.harness import exc_sig
from vlib.repo import HarnessError
from cardutil import mciipm

LEVEL = 'exploration'
EXHAUSTIVE = True
TECHNIQUE = 'exhaustive (blocker state x reaching path x next write length) enumeration + Hypothesis write histories with a prefix invariant after every step; validity predicate from an independent 1014 reference'
RULE = ('Block1014 is driven with position-coded data. Enumerated: every internal state (bytes pending in the current '
        'block 0..1012, incl. both "trailer pending" and "trailer written"), each reached by two different chunkings, x '
        'next write length (quick: 27 boundary lengths; thorough: every 0..3036), then finalise. Hypothesis: histories of '
        '1..14 writes (lengths relative to the space left in the block, empty writes included) ended by finalise / '
        'seek(0) / close, with the invariant "what is in the file so far is a block-wise prefix of the data" after every write. Oracle: whole blocks, @@ '
        'trailers, payloads = data then 0x40 fill, at most one all-fill block; equals block_1014 output up to one '
        'all-fill block. Non-trivial = data reaches or crosses a block edge; distinct by (state, path, length) or history digest.')
ASSUMPTIONS = ['the blocker is finalised exactly once at the end of a history (finalise, seek(0) or close)',
               'one-shot block_1014 is compared on the same data; an optional trailing all-fill block is allowed on either side',
               'write is handed bytes, bytearray and memoryview objects (fresh ones, and one buffer refilled per write and overwritten once write has returned): the blocker stands in for a binary file, whose write takes any bytes-like object, and the unchanged code accepts all three']

TOTAL = 1012 * 6 + 50
POS = b''.join(i.to_bytes(3, 'big') for i in range(1, TOTAL // 3 + 2))[:TOTAL]
FILLBLOCK = b'\x40' * 1014


class KeepIO(io.BytesIO):
    final = None

    def close(self):
        self.final = self.getvalue()
        super().close()


def paths_to_state(s):
    """two chunkings that leave the blocker with s bytes of room (s=0: block full, trailer pending)"""
    if s == 1012:
        return [[], [1012]]
    if s == 0:
        return [[2024], [1, 2023]]
    return [[1012 - s], [1012, 1012 - s]]


DATA_KINDS = {'bytes': bytes, 'bytearray': bytearray, 'memoryview': memoryview, 'reused-bytearray': None, 'reused-memoryview': None}


class Reused:
    """the usual copy loop: ONE buffer, refilled for every write and scribbled over as soon as write() has returned
    (write must have consumed the data by then, as a file's write does)"""

    def __init__(self, kind):
        self.kind = kind
        self.buf = bytearray(8192)
        self.n = 0

    def load(self, data):
        self.n = len(data)
        if self.kind == 'reused-bytearray':
            self.buf[:] = data
            return self.buf
        self.buf[:self.n] = data
        return memoryview(self.buf)[:self.n]

    def scribble(self):
        if self.kind == 'reused-bytearray':
            self.buf[:] = b'\xee' * len(self.buf)
        else:
            self.buf[:self.n] = b'\xee' * self.n



def run_history(chunks, finaliser='finalise', check_prefix=False, kind='bytes'):
    """returns (file_bytes, total, problem); `kind`: the bytes-like type handed to write (the blocker stands in for a
    binary file, whose write takes any bytes-like object - and the unchanged code does)"""
    f = KeepIO()
    b = mciipm.Block1014(f)
    off = 0
    wrap = DATA_KINDS[kind]
    reused = Reused(kind) if wrap is None else None
    # a second blocker over another file receives writes in between (two outputs open at once): each keeps its own state
    of, other, ooff = (KeepIO(), None, 0)
    if len(chunks) % 2 == 0:
        other = mciipm.Block1014(of)
    for n in chunks:
        if reused is not None:
            piece = reused.load(POS[off:off + n])
            b.write(piece)
            del piece
            reused.scribble()
        else:
            b.write(wrap(POS[off:off + n]))
        off += n
        if other is not None:
            k = (n * 5 + 3) % 1400
            other.write(POS[ooff:ooff + k])
            ooff += min(k, len(POS) - ooff)
        if check_prefix:
            cur = f.getvalue()
            # before finalisation a blocker may hold data back (buffering is its business); what it has put into the file
            # must be a prefix of the data written so far, laid out in blocks
            if not POS[:off].startswith(refvbs.payload_of(cur)):
                return cur, off, ('prefix-payload', f'after writes {chunks} up to {off} bytes the payload already in the file is not a prefix of the data written')
            for i in range(1012, len(cur), 1014):
                if cur[i:i + 2].strip(b'\x40'):
                    return cur, off, ('prefix-trailer', f'after writes {chunks}: block trailer at {i} is not 0x40')
    if finaliser == 'finalise':
        b.finalise()
        out = f.getvalue()
    elif finaliser == 'seek':
        b.seek(0)
        out = f.getvalue()
    else:
        b.close()
        out = f.final
    if other is not None:
        other.finalise()
        if judge(of.getvalue(), ooff):
            return out, off, ('second-instance-disturbed', f'a second blocker written to in between writes {chunks} produced a malformed file: {judge(of.getvalue(), ooff)}')
    return out, off, None


def judge(out, total):
    data = POS[:total] if total <= TOTAL else big_pos(total)
    expected = refvbs.block(data)
    if out == expected or out == expected + FILLBLOCK:
        return None
    why = refvbs.check_blocked(out, data)
    if why is None:
        raise HarnessError('C04 oracles disagree with each other')
    return why


_BIG = {}


def big_pos(total):
    """position-coded data for the large one-shot cases (built once per process)"""
    if 'd' not in _BIG or len(_BIG['d']) < total:
        n = max(total, 1100000)
        _BIG['d'] = b''.join(i.to_bytes(3, 'big') for i in range(1, n // 3 + 2))[:n]
    return _BIG['d'][:total]


def oneshot(total):
    o = io.BytesIO()
    mciipm.block_1014(io.BytesIO(POS[:total] if total <= TOTAL else big_pos(total)), o)
    return o.getvalue()


def check_case(chunks, finaliser='finalise', check_prefix=False, kind='bytes'):
    try:
        out, total, prob = run_history(chunks, finaliser, check_prefix, kind)
    except Exception as ex:
        return exc_sig('raises', ex), f'writes {chunks} ({kind} objects) then {finaliser} raised {ex!r}'
    if prob:
        return prob
    why = judge(out, total)
    if why:
        return 'malformed:' + why.split(' ')[0] + ':' + _cls(why), f'writes {chunks} then {finaliser}: {why}'
    return None


def _cls(why):
    for k in ('multiple', 'end in', 'holds', 'differs', 'fill', 'more than one'):
        if k in why:
            return k.replace(' ', '-')
    return 'other'


def check_oneshot(total):
    try:
        one = oneshot(total)
    except Exception as ex:
        return exc_sig('oneshot-raises', ex), f'block_1014 of {total} bytes raised {ex!r}'
    why = judge(one, total)
    if why:
        return 'oneshot-malformed', f'block_1014 of {total} bytes: {why}'
    return None


def lookalike_data(total, kind):
    """data that resembles blocked data: 0x40 0x40 where block trailers would sit if it were already blocked"""
    if kind == 'all-fill':
        return b'\x40' * total
    d = bytearray(POS[:total] if total <= TOTAL else big_pos(total))
    for off in range(1012, total - 1, 1014):
        d[off:off + 2] = b'\x40\x40'
    return bytes(d)


def check_lookalike(total, kind):
    """one-shot and streaming blocking of data that looks blocked already: it is data like any other"""
    data = lookalike_data(total, kind)
    expected = refvbs.block(data)
    try:
        o = io.BytesIO()
        mciipm.block_1014(io.BytesIO(data), o)
        one = o.getvalue()
        f = KeepIO()
        b = mciipm.Block1014(f)
        for i in range(0, total, 700):
            b.write(data[i:i + 700])
        b.finalise()
        streamed = f.getvalue()
    except Exception as ex:
        return exc_sig('lookalike-raises', ex), f'blocking {total} bytes of {kind} data raised {ex!r}'
    for name, out in (('block_1014', one), ('Block1014', streamed)):
        if out != expected and out != expected + FILLBLOCK:
            return 'lookalike-malformed:' + name, f'{name} of {total} bytes of {kind} data (0x40 0x40 at the would-be trailer offsets): {refvbs.check_blocked(out, data)}'
    return None


def sweep_lookalike(ctx):
    n = 0
    for total in (1013, 1014, 1015, 2026, 2027, 2028, 2029, 2500, 3041, 3042, 3043, 4056, 5070, 10140, 64896):
        for kind in ('all-fill', 'planted'):
            n += 1
            res = check_lookalike(total, kind)
            if res:
                ctx.report(res[0], {'lookalike': total, 'kind': kind}, res[1])
    ctx.bulk(n, nontrivial_distinct=n, label='data-that-looks-blocked')
    ctx.enumerated('one-shot and streamed blocking of data with 0x40 0x40 at every would-be trailer offset, 15 sizes x 2 contents')


def boundary_lengths(fit):
    s = {0, 1, 2, 3, 4, fit - 1, fit, fit + 1, 1011, 1012, 1013, fit + 1011, fit + 1012, fit + 1013, 2023, 2024, 2025,
         fit + 2023, fit + 2024, fit + 2025, 3035, 3036, 3037}
    return sorted(x for x in s if 0 <= x <= 3037)


def sweep(ctx, states, full):
    n = nt = 0
    for s in states:
        for pi, path in enumerate(paths_to_state(s)):
            lengths = range(0, 3037) if full else boundary_lengths(s)
            base = sum(path)
            for ln in lengths:
                n += 1
                if base + ln >= 1012:
                    nt += 1
                kind = ('bytes', 'bytes', 'bytearray', 'memoryview', 'reused-bytearray', 'reused-memoryview')[(s + ln) % 6]
                res = check_case(path + [ln], kind=kind)
                if res:
                    ctx.report(res[0], {'chunks': path + [ln], 'finaliser': 'finalise', 'kind': kind}, res[1])
    ctx.bulk(n, nontrivial_distinct=nt, label='state-x-length')
    ctx.enumerated('all 1013 blocker states x 2 reaching paths x ' + ('every next write length 0..3036' if full else 'boundary next write lengths'))
    if 500 in states:
        ctx.sample({'chunks': paths_to_state(500)[1] + [513], 'finaliser': 'finalise', 'content': 'position-coded'})


def sweep_oneshot(ctx, lo, hi):
    n = 0
    for total in range(lo, hi):
        n += 1
        res = check_oneshot(total)
        if res:
            ctx.report(res[0], {'oneshot': total}, res[1])
    ctx.bulk(n, nontrivial_distinct=sum(1 for t in range(lo, hi) if t >= 1012), label='oneshot')
    ctx.enumerated(f'block_1014 on every data length {lo}..{hi - 1}')


def large_sizes(full):
    s = set()
    for k in list(range(1, 140)) + [255, 256, 257, 511, 512, 513, 1000, 1024]:
        for unit in (1012, 1014, 1024):
            for d in (-1, 0, 1):
                s.add(k * unit + d)
    s |= {65535, 65536, 65537, 131072, 200000, 1 << 20, (1 << 20) + 1}
    if not full:
        s = {x for x in s if x <= 300000}
    return sorted(x for x in s if x > 3100)


def oneshot_large(ctx, full):
    """the one-shot function on long inputs: sizes around multiples of 1012 / 1014 / 1024 up to 1 MiB, and the same data
    through the streaming blocker in a few chunkings (the two must agree up to one all-fill block)"""
    n = 0
    for total in large_sizes(full):
        n += 1
        res = check_oneshot(total)
        if res:
            ctx.report(res[0], {'oneshot': total}, res[1])
        if n % 9 == 0:
            data = big_pos(total)
            for chunk in (4096, 65536, total):
                f = KeepIO()
                b = mciipm.Block1014(f)
                for i in range(0, total, chunk):
                    b.write(data[i:i + chunk])
                b.finalise()
                why = judge(f.getvalue(), total)
                n += 1
                if why:
                    ctx.report('malformed-large:' + _cls(why), {'stream_large': total, 'chunk': chunk}, f'{total} bytes written in chunks of {chunk}: {why}')
    ctx.bulk(n, nontrivial_distinct=n, label='oneshot-large')
    ctx.enumerated('block_1014 (and sampled streaming chunkings) on data lengths k*1012+d, k*1014+d, k*1024+d for k to 139 and powers of two, d in -1..1, up to '
                   + ('1 MiB' if full else '300 kB'))


OP = st.one_of(
    st.tuples(st.just('rel'), st.sampled_from([-2, -1, 0, 1, 2, 1011, 1012, 1013, 2024])),
    st.tuples(st.just('abs'), st.sampled_from([0, 0, 1, 2, 4, 1011, 1012, 1013, 2024, 2025])),
    st.tuples(st.just('abs'), uniform(0, 3100)),
)
HISTORY = st.tuples(st.lists(OP, min_size=1, max_size=14), st.sampled_from(['finalise', 'seek', 'close']),
                    st.sampled_from(['bytes', 'bytes', 'bytearray', 'memoryview', 'reused-bytearray', 'reused-memoryview']))


def resolve(ops):
    chunks = []
    total = 0
    for kind, k in ops:
        if kind == 'rel':
            fit = 1012 - total % 1012
            n = max(0, fit + k)
        else:
            n = k
        if total + n > TOTAL:
            n = max(0, TOTAL - total)
        chunks.append(n)
        total += n
    return chunks


def hyp_histories(ctx, n):
    def body(v):
        ops, fin, kind = v
        chunks = resolve(ops)
        total = sum(chunks)
        edge = any(sum(chunks[:i + 1]) % 1012 == 0 and sum(chunks[:i + 1]) > 0 for i in range(len(chunks)))
        ctx.case(key=harness.digest((chunks, fin, kind)), nontrivial=total >= 1012,
                 labels=['history', 'fin:' + fin, 'data:' + kind, 'lands-on-edge' if edge else 'no-exact-edge',
                         'has-empty-write' if 0 in chunks else 'no-empty-write'])
        if len(ctx.samples) < 4 and total >= 1012:
            ctx.sample({'chunks': chunks, 'finaliser': fin})
        res = check_case(chunks, fin, check_prefix=True, kind=kind)
        if res:
            ctx.fail(res[0], {'chunks': chunks, 'finaliser': fin, 'prefix': True, 'kind': kind}, res[1])
    harness.drive(ctx, HISTORY, body, n, salt='histories')


def tasks(tier, seed):
    t = []
    full = tier == 'thorough'
    step = 64 if not full else 16
    for lo in range(0, 1013, step):
        t.append(('sweep', dict(states=list(range(lo, min(lo + step, 1013))), full=full)))
    t.append(('sweep_oneshot', dict(lo=0, hi=3101)))
    t.append(('sweep_lookalike', {}))
    t.append(('oneshot_large', dict(full=full)))
    for i in range(4 if not full else 16):
        t.append(('hyp_histories', dict(n=250 if not full else 1500)))
    return t


def replay(case):
    if 'lookalike' in case:
        return check_lookalike(case['lookalike'], case['kind'])
    if 'oneshot' in case:
        return check_oneshot(case['oneshot'])
    if 'stream_large' in case:
        total, chunk = case['stream_large'], case['chunk']
        data = big_pos(total)
        f = KeepIO()
        b = mciipm.Block1014(f)
        for i in range(0, total, chunk):
            b.write(data[i:i + chunk])
        b.finalise()
        why = judge(f.getvalue(), total)
        return ('malformed-large:' + _cls(why), why) if why else None
    return check_case(list(case['chunks']), case.get('finaliser', 'finalise'), check_prefix=case.get('prefix', False), kind=case.get('kind', 'bytes'))
