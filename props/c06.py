"""C06 - IPM file round trip: messages written are the messages read back; instances do not influence each other."""
import copy
import io

from hypothesis import strategies as st
from hypothesis.stateful import RuleBasedStateMachine, Bundle, rule, consumes, precondition, invariant, multiple

from vlib import harness, gen_iso, codecs_, refcodec
from vlib.harness import exc_sig
from vlib.strat import uniform
from cardutil import mciipm
from props import c01

LEVEL = 'exploration'
EXHAUSTIVE = False
TECHNIQUE = 'Hypothesis rule-based state machine interleaving several IpmWriter/IpmReader instances on different files (model = per-file message list + per-reader cursor), plus @given lists of up to 400 heterogeneous messages spanning many 1014 blocks'
RULE = ('State machine: rules new_writer (own BytesIO, encoding from latin_1/cp500/cp037/ascii/cp1252, blocked or not, packaged or '
        'generated configuration), write(writer, message), close(writer), open_reader(file), read(reader); Hypothesis interleaves '
        'them so several writers and readers are live at once. Every read must return the reader\'s own next message (C01 '
        'equivalence, masking applied) and reader.record_number must advance with its own count only (same base for every reader); a reader must end exactly at the end '
        'of its file and is then retired. @given: lists of 1..400 messages (counts also 255..257, 1000, 1025; encoded size <= 6000 by the reference encoder) built '
        'from up to 10 distinct drawn messages, written and read back in VBS and 1014 form. Non-trivial = >= 2 records of '
        'different shape or a file longer than one block (lists); >= 2 instances live at the same step (machine); distinct by digest.')
ASSUMPTIONS = ['"at the same time" means interleaved calls in one thread (preemptive threads on one instance are not in the property)',
               'next() is never called again on a reader that has signalled the end',
               'messages satisfy the C01 domain and their encoding is at most MAX_VBS_RECORD_LENGTH bytes']

PACKAGED = gen_iso.packaged_config()
ENCODINGS = ['latin_1', 'cp500', 'cp037', 'ascii', 'cp1252']


@st.composite
def bounded_message(draw, config, codec):
    msg = draw(gen_iso.messages(config, codec, exact=True, pds_mode='keys', pds_big=draw(st.sampled_from([True, False, False, False]))))
    while len(refcodec.encode(config, codec, False, msg)) > 6000:
        # construction, not rejection: drop the longest element until the record fits
        k = max((k for k in msg if k != 'MTI'), key=lambda k: len(msg[k]) if hasattr(msg[k], '__len__') else 0)
        del msg[k]
    return msg


def expect_record(config, msg, out, where_):
    return c01.compare_out(config, msg, out, where_)


# ---------------------------------------------------------------------------------------------- lists

@st.composite
def list_cases(draw, tier):
    codec = draw(st.sampled_from(ENCODINGS))
    gen = draw(st.sampled_from([False, False, True]))
    config = draw(gen_iso.configs(max_bits=12)) if gen else PACKAGED
    distinct = [draw(bounded_message(config, codec)) for _ in range(draw(uniform(1, 10)))]
    count = draw(st.one_of(uniform(1, 12), uniform(40, 120), st.sampled_from([1, 2, 50, 51, 64, 200, 255, 256, 257, 400, 1000, 1025])))
    pattern = draw(st.lists(uniform(0, len(distinct) - 1), min_size=1, max_size=24))
    msgs = [distinct[pattern[i % len(pattern)]] for i in range(count)]
    blocked = draw(st.booleans())
    return config, gen, codec, msgs, blocked


def check_list(config, gen, codec, msgs, blocked, api):
    f = io.BytesIO()
    kw = dict(encoding=codec, blocked=blocked)
    if codec == 'latin_1' and len(msgs) % 2:
        del kw['encoding']          # latin_1 is the documented default: rely on it for half of those cases
    if gen:
        kw['iso_config'] = config
    try:
        if api == 'with':
            with mciipm.IpmWriter(f, **kw) as w:
                for m in msgs:
                    w.write(copy.deepcopy(m))
        else:
            w = mciipm.IpmWriter(f, **kw)
            w.write_many(copy.deepcopy(m) for m in msgs)
            w.close()
    except Exception as ex:
        return exc_sig('write-raises', ex), f'writing {len(msgs)} messages ({codec}, blocked={blocked}) raised {ex!r}'
    data = f.getvalue()
    try:
        out = list(mciipm.IpmReader(io.BytesIO(data), **kw))
    except Exception as ex:
        return exc_sig('read-raises', ex), (f'reading back {len(msgs)} messages ({codec}, blocked={blocked}, {len(data)} bytes) raised {ex!r} '
                                            f'(record {getattr(ex, "record_number", None)}, cause {getattr(ex, "ex", None)!r})')
    if len(out) != len(msgs):
        return 'count-differs', f'{len(msgs)} messages written, {len(out)} read back ({codec}, blocked={blocked})'
    for i, (m, o) in enumerate(zip(msgs, out)):
        res = expect_record(config, m, o, f'in record {i + 1} of {len(msgs)} ({codec}, blocked={blocked})')
        if res:
            return res[0], res[1]
    return None


def hyp_lists(ctx, n):
    def body(v):
        config, gen, codec, msgs, blocked = v
        size = sum(len(refcodec.encode(config, codec, False, m)) + 4 for m in msgs)
        shapes = len({tuple(sorted(m)) for m in msgs})
        ctx.case(key=harness.digest((config if gen else 0, codec, msgs[:12], len(msgs), blocked)), nontrivial=shapes >= 2 or size > 1012,
                 labels=['list', 'blocked' if blocked else 'vbs', 'cfg:generated' if gen else 'cfg:packaged',
                         'records>=50' if len(msgs) >= 50 else 'records<50', 'blocks>=10' if size > 10120 else 'blocks<10',
                         'family:' + codecs_.family(codec)])
        if len(ctx.samples) < 3:
            ctx.sample({'records': len(msgs), 'bytes': size, 'codec': codec, 'blocked': blocked, 'first_message': msgs[0]})
        for api in ('with', 'write_many'):
            res = check_list(config, gen, codec, msgs, blocked, api)
            if res:
                ctx.fail(res[0], {'kind': 'list', 'config': config if gen else None, 'codec': codec, 'msgs': msgs, 'blocked': blocked, 'api': api}, res[1])
    harness.drive(ctx, list_cases(ctx.tier), body, n, salt='lists')
    ctx.floor('records>=50', 0.08, 'list')


def sized_message(codec, size, variant):
    """a packaged-configuration message whose encoded record is exactly `size` bytes (size >= 60)"""
    msg = {'MTI': '1240', 'DE2': '5' * 16, 'DE3': '%06d' % (variant % 1000000)}
    base = len(refcodec.encode(PACKAGED, codec, False, msg))
    need = size - base
    for key in ('DE72', 'DE54', 'DE111', 'DE127', 'DE63', 'PDS0001'):
        if need <= 0:
            break
        overhead = 10 if key.startswith('PDS') else 3      # LLL prefix (+ tag and length of the sub-element)
        if need <= overhead:
            # too small for another element: grow DE2 instead (LLVAR, up to 99)
            msg['DE2'] = msg['DE2'] + '7' * need
            need = 0
            break
        take = min(992 if key.startswith('PDS') else 999, need - overhead)
        if 0 < need - overhead - take <= 10:
            take -= 12
        msg[key] = ('%s-%d ' % (key, variant) * 200)[:take]
        need -= overhead + take
    return msg


def sweep_sizes(ctx, lo, hi, codec):
    """one- and two-record files whose record size takes every value in [lo, hi): the record end (and the next length
    prefix) lands on every offset relative to the 1012-byte payload edge"""
    n = 0
    for size in range(lo, hi):
        msg = sized_message(codec, size, size)
        if len(refcodec.encode(PACKAGED, codec, False, msg)) != size:
            ctx.labels['size-not-reached'] += 1
            continue
        second = {'MTI': '1442', 'DE2': '4' * 12, 'DE71': size % 100000000}
        for msgs in ([msg], [second, msg, second]):
            n += 1
            res = check_list(PACKAGED, False, codec, msgs, True, 'with')
            if res:
                ctx.report(res[0], {'kind': 'list', 'config': None, 'codec': codec, 'msgs': msgs, 'blocked': True, 'api': 'with'}, res[1])
    ctx.bulk(n, nontrivial_distinct=n, label='size-sweep')
    ctx.enumerated(f'1014-blocked files with a record of every size in 60..6000 bytes (alone and between two small records), {codec}')
    if lo <= 2021 < hi:
        ctx.sample({'records': 1, 'record_bytes': 2021, 'codec': codec, 'blocked': True})


# ---------------------------------------------------------------------------------------------- state machine

class World:
    """Executes operations on real writers/readers next to the model; every operation is logged with its full
    arguments so that a failing history replays as a plain script (no Hypothesis involved)."""

    def __init__(self):
        self.ops = []
        self.writers = {}
        self.files = {}
        self.readers = {}
        self.next_id = 0
        self.max_live = 0
        self.steps = 0
        self.steps_multi = 0
        self.rn_base = None

    def _live(self):
        return len(self.writers) + sum(1 for r in self.readers.values() if not r['done'])

    def _count(self):
        self.steps += 1
        live = self._live()
        self.max_live = max(self.max_live, live)
        if live >= 2:
            self.steps_multi += 1

    def apply(self, op):
        self.ops.append(op)
        res = getattr(self, 'op_' + op[0])(*op[1:])
        self._count()
        return res

    def op_new_writer(self, wid, codec, blocked, config):
        f = io.BytesIO()
        kw = dict(encoding=codec, blocked=blocked)
        if config is not None:
            kw['iso_config'] = config
        self.writers[wid] = {'f': f, 'w': mciipm.IpmWriter(f, **kw), 'kw': kw, 'config': config or PACKAGED, 'model': []}
        return None

    def op_write(self, wid, msg):
        wr = self.writers[wid]
        try:
            wr['w'].write(copy.deepcopy(msg))
        except Exception as ex:
            return exc_sig('machine-write-raises', ex), f'write raised {ex!r}'
        wr['model'].append(msg)
        return None

    def op_close(self, wid):
        wr = self.writers.pop(wid)
        try:
            wr['w'].close()
        except Exception as ex:
            return exc_sig('machine-close-raises', ex), f'close raised {ex!r}'
        self.files[wid] = {'data': wr['f'].getvalue(), 'kw': wr['kw'], 'config': wr['config'], 'model': wr['model']}
        return None

    def op_open_reader(self, rid, fid):
        fl = self.files[fid]
        self.readers[rid] = {'r': iter(mciipm.IpmReader(io.BytesIO(fl['data']), **fl['kw'])), 'pos': 0, 'fid': fid, 'done': False}
        return None

    def op_read(self, rid):
        rd = self.readers[rid]
        if rd['done']:
            return None
        fl = self.files[rd['fid']]
        model = fl['model']
        rn = getattr(rd['r'], 'record_number', None)
        if isinstance(rn, int):
            # whatever base the counter uses, it must be a function of this reader's own progress only
            if self.rn_base is None:
                self.rn_base = rn - rd['pos']
            elif rn - rd['pos'] != self.rn_base:
                return 'record-number-influenced', (f'reader {rid} on file {rd["fid"]} has delivered {rd["pos"]} records but its '
                                                    f'record_number is {rn} (other readers: delivered + {self.rn_base})')
        try:
            out = next(rd['r'])
        except StopIteration:
            rd['done'] = True
            if rd['pos'] != len(model):
                return 'ended-early', f'reader {rid} on file {rd["fid"]} ended after {rd["pos"]} of {len(model)} records'
            return None
        except Exception as ex:
            return exc_sig('machine-read-raises', ex), (f'read raised {ex!r} (cause {getattr(ex, "ex", None)!r}) at record '
                                                       f'{rd["pos"] + 1} of file {rd["fid"]}')
        if rd['pos'] >= len(model):
            return 'invented-record', f'reader {rid} delivered a record beyond the {len(model)} written to file {rd["fid"]}'
        res = expect_record(fl['config'], model[rd['pos']], out, f'(record {rd["pos"] + 1} of file {rd["fid"]}, {fl["kw"]["encoding"]})')
        if res:
            return 'machine:' + res[0], res[1]
        rd['pos'] += 1
        return None


def summary(ops):
    out = []
    for op in ops:
        if op[0] == 'write':
            out.append(('write', op[1], sorted(op[2])[:5]))
        elif op[0] == 'new_writer':
            out.append(('new_writer', op[1], op[2], op[3], 'generated-config' if op[4] else 'packaged'))
        else:
            out.append(op)
    return out


def machine_factory(ctx):
    class IpmFiles(RuleBasedStateMachine):
        writers = Bundle('writers')
        files = Bundle('files')
        readers = Bundle('readers')

        def __init__(self):
            super().__init__()
            self.world = World()
            ctx.evaluations += 1
            ctx.labels['machine-runs'] += 1

        def _do(self, *op):
            res = self.world.apply(op)
            if res:
                ctx.fail(res[0], {'kind': 'machine', 'ops': self.world.ops}, res[1] + f' | last ops: {summary(self.world.ops)[-8:]}')

        @rule(target=writers, codec=st.sampled_from(ENCODINGS), blocked=st.booleans(), gen=st.sampled_from([False, False, True]), data=st.data())
        def new_writer(self, codec, blocked, gen, data):
            config = data.draw(gen_iso.configs(max_bits=8)) if gen else None
            wid = self.world.next_id
            self.world.next_id += 1
            self._do('new_writer', wid, codec, blocked, config)
            return wid

        @rule(wid=writers, data=st.data())
        def write(self, wid, data):
            wr = self.world.writers[wid]
            msg = data.draw(bounded_message(wr['config'], wr['kw']['encoding']))
            self._do('write', wid, msg)

        @rule(target=files, wid=consumes(writers))
        def close(self, wid):
            self._do('close', wid)
            return wid

        @rule(target=readers, fid=files)
        def open_reader(self, fid):
            rid = self.world.next_id
            self.world.next_id += 1
            self._do('open_reader', rid, fid)
            return rid

        @rule(rid=readers)
        def read(self, rid):
            self._do('read', rid)

        def teardown(self):
            w = self.world
            ctx.labels['machine-steps'] += w.steps
            ctx.labels['steps-with>=2-live-instances'] += w.steps_multi
            if w.max_live >= 2:
                ctx.nontrivial.add(harness.digest(summary(w.ops)))
            if len(ctx.samples) < 6 and w.max_live >= 3:
                ctx.sample({'machine_history': summary(w.ops)[:14]})
    return IpmFiles


def machine(ctx, runs, steps):
    harness.drive_machine(ctx, lambda: machine_factory(ctx), runs, steps, salt='machine')
    ctx.floor('steps-with>=2-live-instances', 0.30, 'machine-steps')


INTERLEAVINGS = ['ABABABABAB', 'AABBAABBAB', 'ABBBBAAAAB', 'BAAAABBBBA', 'AAAAABBBBB']


def check_two_files(codec, blocked, pattern, two_writers):
    """two files written (one after the other, or record by record in turn) and read side by side, the readers advanced
    in the order of `pattern`: each reader returns its own file's messages"""
    def plain(i, n):
        return {'MTI': '%04d' % (1100 + i), 'DE2': '5' * (12 + i % 7), 'DE3': '%06d' % (i * 7), 'DE72': 'T' * (n % 999 + 1), 'PDS0023': 'N%d' % i}
    msgs = {'A': [plain(i, 31 + 7 * i) for i in range(5)], 'B': [plain(100 + i, 400 + 301 * i) for i in range(5)]}
    files = {k: io.BytesIO() for k in 'AB'}
    try:
        writers = {k: mciipm.IpmWriter(files[k], encoding=codec, blocked=blocked) for k in 'AB'}
        pos = {'A': 0, 'B': 0}
        for k in (pattern if two_writers else 'AAAAABBBBB'):
            writers[k].write(dict(msgs[k][pos[k]]))
            pos[k] += 1
        for k in 'AB':
            writers[k].close()
    except Exception as ex:
        return exc_sig('two-files:write-raises', ex), f'writing two files in turn ({pattern}) raised {ex!r}'
    readers = {k: iter(mciipm.IpmReader(io.BytesIO(files[k].getvalue()), encoding=codec, blocked=blocked)) for k in 'AB'}
    pos = {'A': 0, 'B': 0}
    for k in pattern:
        try:
            out = next(readers[k])
        except StopIteration:
            return 'two-files:ended-early', f'reader {k} ended after {pos[k]} of 5 records when two files are read in the order {pattern} ({codec}, blocked={blocked})'
        except Exception as ex:
            return exc_sig('two-files:read-raises', ex), f'reader {k} raised {ex!r} at record {pos[k] + 1} when two files are read in the order {pattern}'
        why = c01.compare_out(PACKAGED, msgs[k][pos[k]], out, f'(reader {k}, record {pos[k] + 1}, order {pattern})')
        if why:
            return 'two-files:' + why[0], why[1]
        pos[k] += 1
    return None


def two_files(ctx):
    n = 0
    for codec in ('latin_1', 'cp500'):
        for blocked in (False, True):
            for pattern in INTERLEAVINGS:
                for two_writers in (False, True):
                    n += 1
                    res = check_two_files(codec, blocked, pattern, two_writers)
                    if res:
                        ctx.report(res[0], {'kind': 'two-files', 'codec': codec, 'blocked': blocked, 'pattern': pattern, 'two_writers': two_writers}, res[1])
    ctx.bulk(n, nontrivial_distinct=n, label='two-files-side-by-side')
    ctx.enumerated('two files of five messages written in turn or one after the other and read side by side in five interleavings, x codec x blocking')


def tasks(tier, seed):
    full = tier == 'thorough'
    t = []
    for i in range(6 if not full else 16):
        t.append(('machine', dict(runs=25 if not full else 150, steps=40 if not full else 80)))
    for lo in range(60, 6001, 540):
        t.append(('sweep_sizes', dict(lo=lo, hi=min(lo + 540, 6001), codec='cp500' if (lo // 540) % 2 else 'latin_1')))
    for i in range(6 if not full else 16):
        t.append(('hyp_lists', dict(n=50 if not full else 300)))
    t.append(('two_files', {}))
    return t


def replay(case):
    if case['kind'] == 'two-files':
        return check_two_files(case['codec'], case['blocked'], case['pattern'], case['two_writers'])
    if case['kind'] == 'list':
        config = case['config'] or PACKAGED
        # a list case found in a long run may depend on what other instances did earlier in the same process (that is the
        # second sentence of the property), so the replay first lets a writer with a *different* configuration work
        other = {'3': {'field_type': 'FIXED', 'field_length': 6}, '62': {'field_type': 'LLLVAR', 'field_length': 0, 'field_processor': 'PDS'}}
        prime = io.BytesIO()
        with mciipm.IpmWriter(prime, iso_config=other if case['config'] is None else None) as w:
            w.write({'MTI': '1240', 'DE3': '123456', 'PDS0001': 'x'})
        return check_list(config, case['config'] is not None, case['codec'], list(case['msgs']), case['blocked'], case['api'])
    first_cfg = next((op[4] for op in case['ops'] if op[0] == 'new_writer'), None)
    other = {'3': {'field_type': 'FIXED', 'field_length': 6}, '62': {'field_type': 'LLLVAR', 'field_length': 0, 'field_processor': 'PDS'}}
    prime = io.BytesIO()
    with mciipm.IpmWriter(prime, iso_config=other if first_cfg is None else None) as w:   # an instance active earlier in the process
        w.write({'MTI': '1240', 'DE3': '123456', 'PDS0001': 'x'})
    world = World()
    for op in case['ops']:
        res = world.apply(tuple(op))
        if res:
            return res
    return None
