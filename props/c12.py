"""C12 - PDS sub-elements are packed into carrier elements and recovered without loss."""
import copy

from hypothesis import strategies as st

from vlib import harness, gen_iso, codecs_, refcodec
from vlib.harness import exc_sig
from cardutil import iso8583

LEVEL = 'exploration'
EXHAUSTIVE = True
TECHNIQUE = 'Hypothesis-generated PDS sets + exhaustive boundary sweep of value-length pairs around the 999-character carrier limit; dumps output parsed by an independent reference decoder (validity predicate, greedy packing not demanded) and compared with loads'
RULE = ('PDS sets (distinct 4-digit tags, values of 0..992 characters: empty, digit-only header-shaped, codec repertoire) sized by '
        'the reference packer to need 1..5 carriers of the packaged configuration or the carriers of a generated one. Oracle: '
        'the reference strict decoder parses the dumps output; every carrier holds <= 999 characters and tiles exactly into '
        'tag(4) len(3) value items; reading the carriers in ascending element order gives the input set in ascending tag order; '
        'loads returns exactly the same PDSxxxx entries. Enumerated: every pair of value lengths whose running carrier length '
        'lands in 985..1005 (thorough; quick: every 9th first length), also behind one full carrier and at the 4->5 carrier '
        'transition; capacity-filling sets. Non-trivial = >= 2 sub-elements or a carrier boundary crossed; distinct by digest.')
ASSUMPTIONS = ['"within capacity" = the greedy in-order packing needs no more carriers than are configured (in-order greedy is optimal for an ordered partition)',
               'PDS sub-elements are supplied as PDSxxxx keys only; carrier elements are not supplied at the same time']

PACKAGED = gen_iso.packaged_config()


def check(config, codec, hexbm, pds, extra=None, default_cfg=False):
    msg = {'MTI': '1240'}
    if extra:
        msg.update(extra)
    msg.update(pds)
    kw = dict(encoding=codec, hex_bitmap=hexbm)
    if not default_cfg:
        kw['iso_config'] = config
    lens = [len(v) for _, v in sorted(pds.items())]
    try:
        data = iso8583.dumps(copy.deepcopy(msg), **kw)
    except Exception as ex:
        return exc_sig('dumps-raises', ex), f'dumps raised {ex!r} for PDS value lengths {lens[:10]} (within capacity)'
    ref = refcodec.decode(config, codec, hexbm, data, strict=True)
    if not ref.ok:
        return 'carrier-malformed', f'dumps output is not well-formed for PDS value lengths {lens[:10]}: {ref.reason}'
    carriers = refcodec.pds_carrier_bits(config)
    items = []
    for b in carriers:
        text = ref.values.get('DE%d' % b)
        if text is None:
            continue
        if len(text) > 999:
            return 'carrier-too-long', f'DE{b} holds {len(text)} characters'
        p = 0
        while p < len(text):
            ln = int(text[p + 4:p + 7])
            items.append(('PDS' + text[p:p + 4], text[p + 7:p + 7 + ln]))
            p += 7 + ln
    want = sorted(pds.items())
    if items != want:
        if sorted(items) == want:
            return 'order', f'sub-elements are not in ascending tag order across carriers: {[k for k, _ in items][:12]}'
        return 'packed-set-differs', (f'carriers hold {[(k, len(v)) for k, v in items][:8]}, '
                                      f'input was {[(k, len(v)) for k, v in want][:8]}')
    try:
        out = iso8583.loads(data, **kw)
    except Exception as ex:
        return exc_sig('loads-raises', ex), f'loads(dumps(m)) raised {ex!r} (cause {getattr(ex, "ex", None)!r}) for PDS value lengths {lens[:10]}'
    got = sorted((k, v) for k, v in out.items() if k.startswith('PDS'))
    if got != want:
        return 'recovered-set-differs', (f'loads returns {[(k, len(v)) for k, v in got][:8]}, input was '
                                         f'{[(k, len(v)) for k, v in want][:8]}')
    return None


def val(n, style=0):
    if style == 0:
        return ('0123456789' * (n // 10 + 1))[:n]      # digits that look like tag/length headers
    if style == 1:
        return ('0002003abc' * (n // 10 + 1))[:n]
    return ('v ' * (n // 2 + 1))[:n]


def sweep_pairs(ctx, a_values, prefix_items):
    """two value lengths (a, b) with 14 + a + b in 985..1005, behind `prefix_items` full carriers"""
    n = 0
    for a in a_values:
        for total in range(985, 1006):
            b = total - 14 - a
            if b < 0 or b > 992:
                continue
            pds = {'PDS%04d' % i: val(992, i % 3) for i in range(prefix_items)}
            pds['PDS%04d' % 5000] = val(a, 0)
            pds['PDS%04d' % 5001] = val(b, 1)
            if len(refcodec.pack_pds([(int(k[3:]), v) for k, v in pds.items()])) > 5:
                continue
            n += 1
            res = check(PACKAGED, 'latin_1' if n % 3 else 'cp500', bool(n % 2), pds, default_cfg=True)
            if res:
                ctx.report(res[0], {'config': None, 'codec': 'latin_1' if n % 3 else 'cp500', 'hex': bool(n % 2), 'pds': pds}, res[1])
    ctx.bulk(n, nontrivial_distinct=n, label=f'pairs-behind-{prefix_items}-full-carriers')


def capacity(ctx):
    n = 0
    cases = []
    for k in range(1, 6):
        cases.append({'PDS%04d' % i: val(992, i) for i in range(k)})                       # k carriers exactly full
        cases.append({'PDS%04d' % i: val(492 if i % 2 else 493, i) for i in range(2 * k)})   # 2 items per carrier, exactly 999
        cases.append({'PDS%04d' % i: val(991, i) for i in range(k)})
    cases.append({'PDS%04d' % i: '' for i in range(142)})                                   # 142 x 7 = 994
    cases.append({'PDS%04d' % i: '' for i in range(143)})                                   # crosses into a second carrier
    cases.append({'PDS%04d' % i: '' for i in range(5 * 142)})
    for pds in cases:
        for codec in ('latin_1', 'cp500'):
            n += 1
            res = check(PACKAGED, codec, False, pds, default_cfg=True)
            if res:
                ctx.report(res[0], {'config': None, 'codec': codec, 'hex': False, 'pds': pds}, res[1])
    ctx.bulk(n, nontrivial_distinct=n, label='capacity-filling')
    ctx.enumerated('capacity-filling sets: 1..5 carriers exactly full, two items per carrier exactly 999, runs of empty values')
    ctx.sample({'pds_value_lengths': [992] * 5, 'expect': 'five carriers of 999 characters'})


@st.composite
def cases(draw, tier, generated):
    codec = draw(gen_iso.codec_strategy(tier))
    hexbm = draw(st.booleans())
    if generated:
        config = draw(gen_iso.configs(max_bits=12, kinds=['pds', 'pds', 'pds', 'fixed_text', 'llvar_text', 'fixed_int']))
        if not refcodec.pds_carrier_bits(config):
            free = [b for b in gen_iso.EDGE_BITS if str(b) not in config]
            config[str(draw(st.sampled_from(free)))] = gen_iso.field_config('pds', draw)
    else:
        config = PACKAGED
    ncar = len(refcodec.pds_carrier_bits(config))
    pds = draw(gen_iso.pds_sets(codec, ncar, max_items=14, big=draw(st.booleans())))
    extra = {}
    for b in draw(st.lists(st.sampled_from(sorted(config)), max_size=3, unique=True)):
        if config[b].get('field_processor') != 'PDS':
            extra['DE' + b] = draw(gen_iso.value_for(config[b], codec))
    return config, codec, hexbm, pds, extra, generated


def hyp_sets(ctx, n, generated):
    def body(v):
        config, codec, hexbm, pds, extra, gen = v
        ncar = len(refcodec.pack_pds([(int(k[3:]), x) for k, x in pds.items()]))
        ctx.case(key=harness.digest((config if gen else 0, codec, hexbm, pds, extra)), nontrivial=len(pds) >= 2 or ncar >= 2,
                 labels=['hyp', f'carriers-needed={ncar}', 'carriers-needed>=2' if ncar >= 2 else 'carriers-needed<2', 'cfg:generated' if gen else 'cfg:packaged',
                         'has-empty-value' if any(x == '' for x in pds.values()) else 'no-empty-value'])
        if len(ctx.samples) < 4:
            ctx.sample({'config': gen_iso.describe(config) if gen else 'packaged', 'codec': codec,
                        'pds': {k: (x if len(x) < 30 else f'{x[:20]}...({len(x)} chars)') for k, x in pds.items()}})
        res = check(config, codec, hexbm, pds, extra, default_cfg=not gen)
        if res:
            ctx.fail(res[0], {'config': config if gen else None, 'codec': codec, 'hex': hexbm, 'pds': pds, 'extra': extra}, res[1])
    harness.drive(ctx, cases(ctx.tier, generated), body, n, salt='gen' if generated else 'pkg')
    ctx.floor('carriers-needed>=2', 0.04, 'hyp')


def tasks(tier, seed):
    full = tier == 'thorough'
    t = [('capacity', {})]
    a_all = list(range(0, 993))
    stride = 1 if full else 9
    chunks = 16
    for prefix in (0, 1, 4):
        vals = a_all[::stride] if prefix == 0 else a_all[::stride * (4 if not full else 3)]
        for i in range(chunks):
            part = vals[i::chunks]
            if part:
                t.append(('sweep_pairs', dict(a_values=part, prefix_items=prefix)))
    k = 6 if not full else 8
    for i in range(k):
        t.append(('hyp_sets', dict(n=250 if not full else 1200, generated=False)))
        t.append(('hyp_sets', dict(n=200 if not full else 1000, generated=True)))
    return t


def replay(case):
    config = case['config'] or PACKAGED
    return check(config, case['codec'], case['hex'], case['pds'], case.get('extra'), default_cfg=case['config'] is None)
