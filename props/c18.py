"""C18 - Parameter extraction returns exactly the requested table's rows and columns."""
import contextlib
import csv
import io
import json
import os
import shutil
import tempfile

from hypothesis import strategies as st

from vlib import harness, codecs_, refvbs
from vlib.harness import exc_sig
from vlib.strat import uniform
from cardutil import mciipm
from cardutil import config as cfgmod
from cardutil.cli import mci_ipm_param_to_csv

LEVEL = 'exploration'
EXHAUSTIVE = False
TECHNIQUE = 'Hypothesis-generated synthetic extract files (index, trailer, interleaved rows of wanted and look-alike foreign tables) in compressed and expanded form, compared with an independent slicing of the generated rows; CSV output parsed back; refusal cases'
RULE = ('Synthetic extract files: an IP0000T1 index with random distinct 3-character sub-ids (a table may be listed under several of them; tables without rows, foreign tables '
        'whose ids differ from the wanted one only in the last one or two characters), the index trailer, then rows of all tables '
        'interleaved in random order with TRAILER RECORD lines between them; every row rendered both expanded (10-char timestamp, '
        'code, table id, body) and compressed (7-char timestamp, code, sub-id, same body); every packaged table and generated '
        'layouts (random column names, spans in 19..250 with gaps and overlaps); latin_1, cp500, cp037, ascii; blocked and '
        'unblocked. Oracle: exactly the requested table\'s rows in file order, each with its own timestamp and code and every column '
        '== expanded_row[start:end]; compressed and expanded runs give equal column values; the CSV from mci_ipm_param_to_csv '
        'parses back to the same rows; a file without the index trailer and a table without configuration raise MciIpmDataError. '
        'Long-run files: 3..6 uninterrupted runs of 1..4000 rows of one table each, always with a run of >= 1100 rows of a table '
        'that was not asked for (real extracts group thousands of rows per table). '
        'Non-trivial = >= 2 wanted rows interleaved with >= 1 foreign row, or a foreign run of >= 1000 rows; distinct by digest.')
ASSUMPTIONS = ['sub-ids never equal "REC" (characters 8..10 of a TRAILER RECORD line), which a real index cannot contain either',
               'row text is drawn from the printable part of the codec repertoire without CR/LF (rows also travel through CSV)']

ENCODINGS = ['latin_1', 'cp500', 'cp037', 'ascii']
SUBID_POOL = ['001', '002', '003', '004', '005', '006', '007', '008', '009', '010', 'A01', 'A02', 'B01', 'XYZ', 'xxx', 'www']   # ('yyy' and 'zzz' are reserved for long_run_files)
PACKAGED_TABLES = cfgmod.config['mci_parameter_tables']


def alphabet(codec):
    return ''.join(c for c in codecs_.printable(codec) if c not in '\r\n')


@st.composite
def layouts(draw):
    names = draw(st.lists(st.text(alphabet='abcdefghijklmnopqrstuvwxyz_', min_size=1, max_size=12), min_size=1, max_size=8, unique=True))
    names = [n for n in names if n not in ('table_id', 'effective_timestamp', 'active_inactive_code')] or ['col']
    layout = {}
    for n in names:
        a = draw(uniform(19, 249))
        b = draw(uniform(a + 1, min(250, a + 40)))
        layout[n] = {'start': a, 'end': b}
    return layout


def look_alike(table_id, draw):
    kind = draw(st.sampled_from(['last1', 'last2', 'random']))
    if kind == 'last1':
        return table_id[:7] + draw(st.sampled_from('23456789XZ'))
    if kind == 'last2':
        return table_id[:6] + draw(st.sampled_from(['T2', 'X1', 'A9', 'T3']))
    return 'IP%04dT1' % draw(uniform(1, 9998))


@st.composite
def extract_files(draw, tier):
    codec = draw(st.sampled_from(ENCODINGS))
    alpha = alphabet(codec)
    if draw(st.booleans()):
        wanted = draw(st.sampled_from(sorted(PACKAGED_TABLES)))
        param_config = None
        layout = PACKAGED_TABLES[wanted]
    else:
        wanted = 'IP%04dT1' % draw(uniform(1, 9998))
        layout = draw(layouts())
        param_config = {wanted: layout}
        if draw(st.booleans()):
            param_config['IP9999T1'] = {'x': {'start': 19, 'end': 20}}
    tables = [wanted]
    for _ in range(draw(uniform(0, 4))):
        t = look_alike(wanted, draw)
        if t not in tables and t != 'IP0000T1':
            tables.append(t)
    # the requested table has a layout but the file need not carry it (then the answer is: no rows)
    indexed = draw(st.sampled_from([True, True, True, True, False]))
    if not indexed:
        tables = tables[1:] or ['IP%04dT1' % (int(wanted[2:6]) % 9000 + 1)]
    # a table may be listed under several sub-ids (the index maps sub-id -> table)
    owners = list(tables) + [draw(st.sampled_from(tables)) for _ in range(draw(st.sampled_from([0, 0, 1, 2, 3])))]
    # sub-ids: random, or from a small pool so that different files of one run give the same sub-id to different tables
    subid = st.one_of(st.text(alphabet='0123456789ABCDEFGHIJKLMNOPQRSTUVWXYZ', min_size=3, max_size=3).filter(lambda s: s != 'REC'),
                      st.sampled_from(SUBID_POOL), st.sampled_from(SUBID_POOL))
    subids = draw(st.lists(subid, min_size=len(owners), max_size=len(owners), unique=True))
    order = draw(st.permutations(list(range(len(owners)))))
    index = [(subids[i], owners[i]) for i in order]          # file order of the index records
    subs_of = {}
    for sub, t in index:
        subs_of.setdefault(t, []).append(sub)
    maxend = max([v['end'] for v in layout.values()] + [60])
    rows = []
    nrows = draw(st.one_of(uniform(0, 6), uniform(2, 25)))
    spare = [x for x in SUBID_POOL if x not in subids]
    for i in range(nrows):
        if draw(uniform(0, 5)) == 0:
            # a row that belongs to no table of this file: its sub-id is not in the index (compressed form) and its table id
            # is neither listed nor asked for (expanded form) - extract files carry such filler rows; they are nobody's rows
            t = 'IP%04dT9' % draw(uniform(1, 9998))
            if t != wanted and t not in tables:
                ts = draw(st.text(alphabet='0123456789', min_size=10, max_size=10))
                rows.append((t, ts, 'A', draw(st.text(alphabet=alpha, min_size=1, max_size=16)) * 12, draw(st.sampled_from(spare))))
                continue
        t = draw(st.sampled_from(tables + ([wanted] if indexed else [])))
        ts = draw(st.text(alphabet='0123456789', min_size=10, max_size=10))
        code = draw(st.sampled_from(['A', 'I', ' ', 'X']))
        blen = draw(st.one_of(st.just(maxend - 19 + 3), uniform(0, maxend - 19 + 10)))
        seedtxt = draw(st.text(alphabet=alpha, min_size=1, max_size=16))
        body = (seedtxt * (blen // len(seedtxt) + 1))[:blen]
        rows.append((t, ts, code, body, draw(st.sampled_from(subs_of[t]))))
    trailers_at = draw(st.lists(uniform(0, max(0, nrows)), max_size=3))
    blocked = draw(st.booleans())
    empty_tables = [t for t in tables if not any(r[0] == t for r in rows)]
    return dict(codec=codec, wanted=wanted, layout=layout, param_config=param_config, index=index, rows=rows,
                trailers_at=trailers_at, blocked=blocked, empty_tables=empty_tables)


def expand(case):
    """cases of the long-run task carry `runs` = [(table, count), ...] instead of the rows themselves"""
    if 'runs' not in case or case.get('rows'):
        return case
    case = dict(case)
    rows, i = [], 0
    body = case['run_body']
    subs_of = {}
    for sub, t in case['index']:
        subs_of.setdefault(t, []).append(sub)
    for t, count in case['runs']:
        for _ in range(count):
            rows.append((t, '%010d' % i, 'AI X'[i % 4], body[i % 7:], subs_of[t][i % len(subs_of[t])]))
            i += 1
    case['rows'] = rows
    return case


@st.composite
def long_run_files(draw):
    """few tables, long uninterrupted runs of rows of one table (real extract files group thousands of rows per table)"""
    case = draw(extract_files('quick'))
    if not any(t == case['wanted'] for _, t in case['index']):
        case['index'] = case['index'] + [('yyy', case['wanted'])]
    tables = sorted({t for _, t in case['index']})
    if len(tables) == 1:
        extra = 'IP%04dT1' % (int(case['wanted'][2:6]) % 9000 + 1)
        tables.append(extra)
        case['index'] = case['index'] + [('zzz', extra)]
    runs = []
    for _ in range(draw(uniform(2, 5))):
        runs.append((draw(st.sampled_from(tables)), draw(st.sampled_from([1, 2, 40, 900, 1100, 1500, 2600, 4000]))))
    foreign = [t for t in tables if t != case['wanted']]
    runs.insert(draw(uniform(0, len(runs))), (draw(st.sampled_from(foreign)), draw(st.sampled_from([1100, 1500, 2600]))))
    if not any(t == case['wanted'] for t, _ in runs):
        runs.insert(draw(uniform(0, len(runs))), (case['wanted'], draw(st.sampled_from([1, 3, 1200]))))
    maxend = max([v['end'] for v in case['layout'].values()] + [60])
    seedtxt = draw(st.text(alphabet=alphabet(case['codec']), min_size=1, max_size=16))
    blen = maxend - 19 + 10
    case.update(rows=[], runs=runs, run_body=(seedtxt * (blen // len(seedtxt) + 1))[:blen], trailers_at=[],
                empty_tables=[t for t in tables if not any(r[0] == t for r in runs)])
    return case


def build(case, expanded, with_trailer=True):
    """returns (file bytes, expected list of dicts)"""
    case = expand(case)
    codec = case['codec']
    recs = []
    for i, (sub, t) in enumerate(case['index']):
        r = ('2024%03d' % i) + 'A' + '   ' + 'IP0000T1' + t
        r = r.ljust(243) + sub + ' ' * 10
        recs.append(r)
    if with_trailer:
        recs.append('TRAILER RECORD IP0000T1  RECORD COUNT %08d' % len(case['index']))
    expected = []
    for i, (t, ts, code, body, sub) in enumerate(case['rows']):
        if i in case['trailers_at']:
            recs.append('TRAILER RECORD %s  RECORD COUNT 00000001' % t)
        xrow = ts + code + t + body
        if expanded:
            recs.append(xrow)
            stamp = ts
        else:
            recs.append(ts[:7] + code + sub + body)
            stamp = ts[:7]
        if t == case['wanted']:
            d = {'table_id': t, 'effective_timestamp': stamp, 'active_inactive_code': code}
            for col, span in case['layout'].items():
                d[col] = xrow[span['start']:span['end']]
            expected.append(d)
    stream = refvbs.vbs([r.encode(codec) for r in recs])
    return (refvbs.block(stream) if case['blocked'] else stream), expected


def looks_blocked(data):
    return data[1012:1014] == b'@@' and (len(data) < 2028 or data[2026:2028] == b'@@')


def read_rows(case, data, expanded):
    kw = dict(param_config=case['param_config'], expanded=expanded, blocked=case['blocked'])
    if not (case['codec'] == 'latin_1' and len(data) % 2):
        kw['encoding'] = case['codec']          # latin_1 is the documented default: half of those cases rely on it
    reader = mciipm.IpmParamReader(io.BytesIO(data), case['wanted'], **kw)
    if len(data) % 3 == 0 and len(case['index']) >= 2:
        # a second extract is opened before the first is read (two files side by side): same sub-ids, other tables
        other = dict(case, index=[(sub, case['index'][(i + 1) % len(case['index'])][1]) for i, (sub, _) in enumerate(case['index'])], rows=[], runs=[])
        other.pop('runs')
        try:
            mciipm.IpmParamReader(io.BytesIO(build(other, expanded)[0]), other['index'][0][1], **dict(kw, param_config=dict(case['param_config'] or PACKAGED_TABLES, **{other['index'][0][1]: {'x': {'start': 19, 'end': 20}}})))
        except mciipm.MciIpmDataError:
            pass
    return list(reader)


def csv_via_cli(case, data, expanded):
    """mci_ipm_param_to_csv through its argument parser and cli_run on real files"""
    d = tempfile.mkdtemp(prefix='cardutil-verif-c18-')
    try:
        src = os.path.join(d, 'in.par')
        dst = os.path.join(d, 'out.csv')
        with open(src, 'wb') as f:
            f.write(data)
        argv = [src, case['wanted'], '-o', dst, '--in-encoding', case['codec'], '--out-encoding', 'utf8']
        if not case['blocked']:
            argv.append('--no1014blocking')
        if expanded:
            argv.append('--expanded')
        if len(data) % 2:
            argv.append('--debug')
        if case['param_config'] is not None:
            cfgfile = os.path.join(d, 'cardutil.json')
            with open(cfgfile, 'w') as f:
                json.dump({'mci_parameter_tables': case['param_config']}, f)
            argv += ['--config-file', cfgfile]
        with contextlib.redirect_stdout(io.StringIO()):
            mci_ipm_param_to_csv.cli_run(**vars(mci_ipm_param_to_csv.cli_parser().parse_args(argv)))
        with open(dst, encoding='utf8', newline='') as f:
            return f.read()
    finally:
        shutil.rmtree(d, ignore_errors=True)


def check(case):
    results = {}
    for expanded in (True, False):
        data, expected = build(case, expanded)
        form = 'expanded' if expanded else 'compressed'
        try:
            got = read_rows(case, data, expanded)
        except Exception as ex:
            return exc_sig('reader-raises:' + form, ex), f'IpmParamReader raised {ex!r} on a {form} file ({case["codec"]}, blocked={case["blocked"]})'
        # the statement names the entries each row must carry; further keys in a row are not forbidden
        got = [{k: r[k] for k in e if k in r} if isinstance(r, dict) else r for r, e in zip(got, expected)] + got[len(expected):]
        if got != expected:
            return 'rows-differ:' + form + ':' + _diff_kind(expected, got), (f'{form} file, table {case["wanted"]} ({case["codec"]}, blocked={case["blocked"]}): '
                                                                             + _diff(expected, got))
        results[expanded] = got
        # CSV
        out = io.StringIO()
        cfg = case['param_config'] or PACKAGED_TABLES
        try:
            mci_ipm_param_to_csv.mci_ipm_param_to_csv(in_param=io.BytesIO(data), out_csv=out, table_id=case['wanted'], config=cfg,
                                                      in_encoding=case['codec'], no1014blocking=not case['blocked'], expanded=expanded)
        except Exception as ex:
            return exc_sig('csv-raises:' + form, ex), f'mci_ipm_param_to_csv raised {ex!r} on a {form} file'
        back = list(csv.DictReader(io.StringIO(out.getvalue())))
        if back != expected:
            return 'csv-differs:' + form, f'CSV of the {form} file does not parse back to the extracted rows: ' + _diff(expected, back)
        if len(data) % 5 == 0:
            try:
                text = csv_via_cli(case, data, expanded)
            except Exception as ex:
                return exc_sig('csv-cli-raises:' + form, ex), f'mci_ipm_param_to_csv command entry point raised {ex!r} on a {form} file'
            back = list(csv.DictReader(io.StringIO(text)))
            if back != expected:
                return 'csv-cli-differs:' + form, f'CSV written by the command entry point for the {form} file differs: ' + _diff(expected, back)
    cols = list(case['layout'])
    a = [{c: r[c] for c in cols} for r in results[True]]
    b = [{c: r[c] for c in cols} for r in results[False]]
    if a != b:
        return 'compressed-vs-expanded', 'compressed and expanded representations give different column values: ' + _diff(a, b)
    return None


def _diff_kind(want, got):
    if len(want) != len(got):
        return 'row-count'
    for w, g in zip(want, got):
        for k in w:
            if g.get(k) != w[k]:
                return k if k in ('table_id', 'effective_timestamp', 'active_inactive_code') else 'column'
    return 'other'


def _diff(want, got):
    if len(want) != len(got):
        return f'{len(want)} rows expected, {len(got)} returned'
    for i, (w, g) in enumerate(zip(want, got)):
        if w != g:
            for k in w:
                if g.get(k) != w[k]:
                    return f'row {i + 1} column {k}: {g.get(k)!r}, expected {w[k]!r}'
            return f'row {i + 1}: extra keys {sorted(set(g) - set(w))}'
    return 'identical?'


def check_refusals(case):
    data, _ = build(case, True, with_trailer=False)
    try:
        read_rows(case, data, True)
        return 'no-trailer-accepted', 'a file without the IP0000T1 index trailer was accepted'
    except mciipm.MciIpmDataError:
        pass
    except Exception as ex:
        return exc_sig('no-trailer-wrong-exception', ex), f'file without index trailer raised {ex!r} instead of MciIpmDataError'
    data, _ = build(case, False)
    cfg = case['param_config'] or PACKAGED_TABLES
    missing = 'IP8888T9'
    try:
        list(mciipm.IpmParamReader(io.BytesIO(data), missing, encoding=case['codec'], param_config=case['param_config'], blocked=case['blocked']))
        return 'unconfigured-table-accepted', f'table {missing} has no configuration but the reader was created'
    except mciipm.MciIpmDataError:
        pass
    except Exception as ex:
        return exc_sig('unconfigured-table-wrong-exception', ex), f'unconfigured table raised {ex!r} instead of MciIpmDataError'
    return None


def hyp_extracts(ctx, n):
    def body(case):
        ctx.labels['has-filler-rows' if any(r[0].endswith('T9') for r in case['rows']) else 'no-filler-rows'] += 1
        wanted_rows = [i for i, r in enumerate(case['rows']) if r[0] == case['wanted']]
        foreign_between = len(wanted_rows) >= 2 and any(r[0] != case['wanted'] for r in case['rows'][wanted_rows[0]:wanted_rows[-1]])
        ctx.case(key=harness.digest({k: v for k, v in case.items()}), nontrivial=foreign_between,
                 labels=['extract', 'blocked' if case['blocked'] else 'vbs', 'layout:generated' if case['param_config'] else 'layout:packaged',
                         'codec:' + case['codec'], 'has-look-alike-table' if len({t for _, t in case['index']}) > 1 else 'single-table',
                         'table-under-several-sub-ids' if len(case['index']) > len({t for _, t in case['index']}) else 'one-sub-id-per-table',
                         'has-empty-table' if case['empty_tables'] else 'all-tables-have-rows',
                         'wanted-table-in-index' if any(t == case['wanted'] for _, t in case['index']) else 'wanted-table-not-in-file']
                 + (['unblocked-file-looks-blocked'] if not case['blocked'] and any(looks_blocked(build(case, x)[0]) for x in (True, False)) else []))
        if len(ctx.samples) < 4 and foreign_between:
            ctx.sample({'codec': case['codec'], 'wanted': case['wanted'], 'index': case['index'], 'blocked': case['blocked'],
                        'rows': [(t, ts, code, body[:24], sub) for t, ts, code, body, sub in case['rows'][:6]]})
        res = check(case) or check_refusals(case)
        if res:
            ctx.fail(res[0], case, res[1])
    harness.drive(ctx, extract_files(ctx.tier), body, n, salt='extracts')
    ctx.floor('has-look-alike-table', 0.3, 'extract')
    ctx.floor('unblocked-file-looks-blocked', 0.03, 'extract')
    ctx.floor('wanted-table-not-in-file', 0.08, 'extract')


def hyp_long_runs(ctx, n):
    def body(case):
        # consecutive runs of foreign tables add up
        acc = best = 0
        for t, c in case['runs']:
            acc = acc + c if t != case['wanted'] else 0
            best = max(best, acc)
        ctx.case(key=harness.digest(case), nontrivial=best >= 1000,
                 labels=['long-runs', 'foreign-run>=1000' if best >= 1000 else 'foreign-run<1000',
                         'foreign-run>=2500' if best >= 2500 else 'foreign-run<2500',
                         'wanted-run>=1000' if any(t == case['wanted'] and c >= 1000 for t, c in case['runs']) else 'wanted-run<1000'])
        res = check(case)
        if res:
            ctx.fail(res[0], case, res[1])
    harness.drive(ctx, long_run_files(), body, n, salt='long-runs')
    ctx.floor('foreign-run>=1000', 0.9, 'long-runs')   # by construction


def tasks(tier, seed):
    full = tier == 'thorough'
    return ([('hyp_extracts', dict(n=300 if not full else 1500)) for _ in range(12)]
            + [('hyp_long_runs', dict(n=5 if not full else 25)) for _ in range(4 if not full else 8)])


def replay(case):
    case = dict(case)
    case['rows'] = [tuple(r) for r in case['rows']]
    case['index'] = [tuple(x) for x in case['index']]
    if 'runs' in case:
        case['runs'] = [tuple(x) for x in case['runs']]
    return check(case) or check_refusals(case)
