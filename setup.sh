#!/bin/sh
# Offline, idempotent: make sure the interpreter that has cardutil's dependencies also has hypothesis (and atheris beside it).
set -u
cd "$(dirname "$0")"
WH=/opt/veriftools/wheels
/venv/bin/python -c "import hypothesis" 2>/dev/null || \
  /venv/bin/pip install --no-index --find-links "$WH" hypothesis >/dev/null 2>&1 || \
  { echo "setup: cannot install hypothesis"; exit 1; }
/venv/bin/python -c "import dateutil, cryptography" 2>/dev/null || { echo "setup: /venv lacks cardutil's dependencies"; exit 1; }
if ! PYTHONPATH=.deps /venv/bin/python -c "import atheris" 2>/dev/null; then
  /venv/bin/pip install --no-index --find-links "$WH" --target .deps atheris >/dev/null 2>&1 || \
    echo "setup: atheris not installable; coverage-guided tiers will be skipped (recorded in evidence)"
fi
/venv/bin/python -c "import hypothesis; print('setup ok: hypothesis', hypothesis.__version__)"
