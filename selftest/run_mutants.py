#!/usr/bin/env python3
"""Kill-matrix runner (not a registered check).

  run_mutants.py [--tier quick] [--props C03,C04] [--ids m08,n25] [--revert-fixes] [--seeded] [--jobs 4]

For each mutant: copy /repo's working tree to a scratch directory outside /repo and /verif, apply one edit (or reverse
one fix: commit, or apply one seeded/<id>/patch.diff), run the property's check with VERIF_REPO pointing there, expect
exit 1, delete the copy. Results are merged into selftest/kill_matrix.json."""
import argparse
import concurrent.futures as cf
import json
import os
import pathlib
import shutil
import subprocess
import sys
import tempfile
import time

HERE = pathlib.Path(__file__).resolve().parent
VERIF = HERE.parent
sys.path.insert(0, str(HERE))
from mutants import M  # noqa


def scratch_copy(tag):
    d = pathlib.Path(tempfile.mkdtemp(prefix=f'cardutil-verif-mut-{tag}-'))
    subprocess.run(f'cd /repo && git ls-files -z | xargs -0 cp --parents -t {d}', shell=True, check=True)
    return d


def run_check(prop, d, tier, nproc, suite):
    env = dict(os.environ, VERIF_OUT=str(d / '.verif-out'), VERIF_REPO=str(d), VERIF_NPROC=str(nproc), PYTHONHASHSEED='0', PYTHONDONTWRITEBYTECODE='1')
    res = {}
    if suite:
        r = subprocess.run(['/venv/bin/python', '-m', 'pytest', '-q', '-x', '-p', 'no:cacheprovider', '--timeout=300'],
                           cwd=d, capture_output=True, text=True, env=dict(os.environ, PYTHONDONTWRITEBYTECODE='1'))
        res['suite_passes'] = r.returncode == 0
    t0 = time.time()
    r = subprocess.run(['/venv/bin/python', str(VERIF / 'run.py'), prop, '--tier', tier], capture_output=True,
                       text=True, env=env, cwd=VERIF)
    res.update(exit=r.returncode, wall=round(time.time() - t0, 1),
               signatures=[l.split('signature=')[1][:160] for l in r.stdout.splitlines() if l.startswith('violation signature=')][:6])
    if r.returncode == 2:
        res['harness'] = (r.stdout[-600:] + r.stderr[-600:])
    return res


def do_mutant(m, tier, nproc, suite):
    mid, prop, f, old, new, note = m
    d = scratch_copy(mid)
    try:
        p = d / f
        s = p.read_text()
        if s.count(old) < 1:
            return mid, {'property': prop, 'note': note, 'status': 'NOMATCH'}
        p.write_text(s.replace(old, new, 1))
        res = run_check(prop, d, tier, nproc, suite)
        res.update(property=prop, note=note, status='KILLED' if res['exit'] == 1 else ('ERROR' if res['exit'] == 2 else 'SURVIVED'))
        return mid, res
    finally:
        shutil.rmtree(d, ignore_errors=True)


def do_patch(tag, prop, patch_path, tier, nproc, reverse, suite):
    d = scratch_copy(tag)
    try:
        cmd = ['patch', '-p1', '-s'] + (['-R'] if reverse else []) + ['-i', str(patch_path)]
        r = subprocess.run(cmd, cwd=d, capture_output=True, text=True)
        if r.returncode != 0:
            return tag, {'property': prop, 'status': 'NOAPPLY', 'detail': r.stdout[-300:]}
        res = run_check(prop, d, tier, nproc, suite)
        res.update(property=prop, status='KILLED' if res['exit'] == 1 else ('ERROR' if res['exit'] == 2 else 'SURVIVED'))
        return tag, res
    finally:
        shutil.rmtree(d, ignore_errors=True)


def main():
    ap = argparse.ArgumentParser()
    ap.add_argument('--tier', default='quick')
    ap.add_argument('--props')
    ap.add_argument('--ids')
    ap.add_argument('--revert-fixes', action='store_true')
    ap.add_argument('--seeded', action='store_true')
    ap.add_argument('--benign', action='store_true', help='apply each selftest/benign/*.diff (property-preserving refactors) and expect EVERY check to stay quiet')
    ap.add_argument('--suite', action='store_true', help='also run the repository suite on each mutant')
    ap.add_argument('--jobs', type=int, default=4)
    ap.add_argument('--no-regress', action='store_true', help='skip the saved regression cases: measure the generators alone')
    a = ap.parse_args()
    props = set(a.props.split(',')) if a.props else None
    ids = set(a.ids.split(',')) if a.ids else None
    nproc = max(2, 16 // a.jobs)
    if a.no_regress:
        os.environ['VERIF_SKIP_REGRESS'] = '1'
    jobs = []
    with cf.ThreadPoolExecutor(a.jobs) as ex:
        if (not a.revert_fixes and not a.seeded and not a.benign) or ids:
            for m in M:
                if props and m[1] not in props:
                    continue
                if ids and m[0] not in ids:
                    continue
                jobs.append(ex.submit(do_mutant, m, a.tier, nproc, a.suite))
        if a.revert_fixes:
            kf = json.load(open(VERIF / 'known_findings.json'))
            for item in kf.get('fixed', []):
                if props and item['property'] not in props:
                    continue
                tag = 'revert-' + item['commit']
                pf = pathlib.Path(tempfile.mkstemp(prefix='cardutil-verif-fix-', suffix='.diff')[1])
                pf.write_text(subprocess.run(['git', '-C', '/repo', 'show', '--format=', item['commit']], capture_output=True, text=True, check=True).stdout)
                jobs.append(ex.submit(do_patch, tag + ':' + item['property'], item['property'], pf, a.tier, nproc, True, a.suite))
        if a.benign:
            allprops = ['C%02d' % i for i in range(1, 21)]
            for pf in sorted((HERE / 'benign').glob('*.diff')):
                for prop in allprops:
                    if props and prop not in props:
                        continue
                    jobs.append(ex.submit(do_patch, f'benign-{pf.stem}:{prop}', prop, pf, a.tier, nproc, False, False))
        if a.seeded:
            for sd in sorted((VERIF / 'seeded').iterdir()):
                meta = sd / 'meta.json'
                if not meta.exists():
                    continue
                mt = json.load(open(meta))
                if props and mt['property'] not in props:
                    continue
                jobs.append(ex.submit(do_patch, 'seeded-' + sd.name, mt['property'], sd / 'patch.diff', a.tier, nproc, False, a.suite))
        results = {}
        for j in cf.as_completed(jobs):
            mid, res = j.result()
            results[mid] = res
            print(mid, res.get('property'), res['status'], res.get('wall'), res.get('signatures', '')[:2] if res.get('signatures') else '', flush=True)
            if res['status'] == 'ERROR':
                print(res.get('harness'))
    path = HERE / 'kill_matrix.json'
    cur = json.load(open(path)) if path.exists() else {}
    for k, v in results.items():
        v['tier'] = a.tier
        v.pop('harness', None)
        cur[k] = v
    json.dump(cur, open(path, 'w'), indent=1, sort_keys=True)
    if a.benign:
        for v in results.values():
            v['status'] = {'SURVIVED': 'QUIET (expected)', 'KILLED': 'FALSE ALARM'}.get(v['status'], v['status'])
        bad = [k for k, v in results.items() if v['status'] != 'QUIET (expected)']
        json.dump(cur, open(path, 'w'), indent=1, sort_keys=True)
        print(f'{len(results) - len(bad)}/{len(results)} quiet on property-preserving refactors; alarms: {bad}')
        return
    surv = [k for k, v in results.items() if v['status'] != 'KILLED']
    print(f'{len(results) - len(surv)}/{len(results)} killed; not killed: {surv}')


if __name__ == '__main__':
    main()
