#!/venv/bin/python
"""Single entry point: run.py <ID> [--tier quick|thorough] [--replay PATH]

exit 0  property held on everything explored (KNOWN-FINDING lines may be printed)
exit 1  at least one line  VIOLATION property=<id> replay=<path>
exit 2  harness error / inconclusive (never accompanied by a VIOLATION line)
"""
import argparse
import importlib
import json
import os
import sys

HERE = os.path.dirname(os.path.abspath(__file__))
sys.path.insert(0, HERE)
_deps = os.path.join(HERE, '.deps')
if os.path.isdir(_deps) and _deps not in sys.path:
    sys.path.append(_deps)


def main():
    ap = argparse.ArgumentParser()
    ap.add_argument('prop')
    ap.add_argument('--tier', default=os.environ.get('VERIF_TIER') or 'quick', choices=['quick', 'thorough'])
    ap.add_argument('--replay')
    ap.add_argument('--seed', type=int, default=None)
    a = ap.parse_args()
    prop = a.prop.upper()
    seed = a.seed if a.seed is not None else int(os.environ.get('VERIF_SEED') or '1')

    try:
        from vlib import repo  # noqa: F401  (activates the tree under test)
        from vlib import harness
        from vlib.repo import HarnessError
        mod = importlib.import_module('props.' + prop.lower())
    except Exception as ex:  # noqa
        import traceback
        traceback.print_exc()
        print(f'HARNESS-ERROR property={prop} {ex!r}')
        return 2

    if a.replay:
        with open(a.replay) as f:
            body = json.load(f)
        try:
            harness.apply_env(body.get('env'))
            res = mod.replay(harness.dec(body['case']))
        except HarnessError as ex:
            print(f'HARNESS-ERROR property={prop} {ex}')
            return 2
        finally:
            harness.apply_env(None)
        if res:
            sig, msg = res
            if harness.open_finding(prop, sig):
                print(f'KNOWN-FINDING: property={prop} {sig}: {harness.open_finding(prop, sig)["what"]}')
                return 0
            print(f'replay fails: {sig}: {msg}')
            print(f'VIOLATION property={prop} replay={a.replay}')
            return 1
        print(f'replay passes: property={prop} {a.replay}')
        return 0

    print(f'# {prop} tier={a.tier} seed={seed} repo={repo.REPO}')
    violations = []

    # 1. saved minimal cases first (seconds; bypasses the generators entirely)
    try:
        skip = os.environ.get('VERIF_SKIP_REGRESS') == '1'  # self-test only: measure the generators alone
        for path, body in ([] if skip else harness.regress_cases(prop)):
            harness.apply_env(body.get('env'))
            try:
                res = mod.replay(harness.dec(body['case']))
            finally:
                harness.apply_env(None)
            if res:
                sig, msg = res
                if harness.open_finding(prop, sig):
                    continue
                print(f'regression case fails again: {sig}: {msg}')
                violations.append((sig, path))
    except HarnessError as ex:
        print(f'HARNESS-ERROR property={prop} {ex}')
        return 2

    # 2. generated search
    total, errors, wall = harness.run_property(mod, prop, a.tier, seed)
    if errors:
        for e in errors:
            print(f'HARNESS-ERROR property={prop} {e}')
        return 2

    for sig, v in sorted(total.violations.items()):
        path = harness.write_replay(prop, v)
        print(f'violation signature={sig}: {v["message"][:600]}')
        violations.append((sig, path))

    floor_problems = harness.check_floors(total)
    harness.write_evidence(mod, total, wall, len(violations))

    for item in harness.findings().get('open', []):
        if item['property'] == prop:
            hit = total.known_hits.get(item['signature'], 0)
            print(f'KNOWN-FINDING: property={prop} {item["signature"]}: {item["what"]} (met {hit} times in this run)')

    print(f'# {prop}: evaluations={total.evaluations} distinct_nontrivial='
          f'{len(total.nontrivial) + total.nontrivial_by_construction} wall={wall:.1f}s')
    if violations:
        for sig, path in violations:
            print(f'VIOLATION property={prop} replay={path}')
        return 1
    if floor_problems:
        for p in floor_problems:
            print(f'HARNESS-ERROR property={prop} generator distribution floor not met: {p}')
        return 2
    print(f'OK property={prop}')
    return 0


if __name__ == '__main__':
    sys.exit(main())
