"""Import cardutil from the tree under test (VERIF_REPO, default /repo) and make sure that is what we got."""
import logging
import os
import sys

REPO = os.path.realpath(os.environ.get('VERIF_REPO', '/repo'))


class HarnessError(Exception):
    """Anything that makes a run inconclusive (exit 2) rather than a verdict about the property."""


def activate():
    if sys.path[0] != REPO:
        sys.path.insert(0, REPO)
    for name in [m for m in sys.modules if m == 'cardutil' or m.startswith('cardutil.')]:
        mod = sys.modules[name]
        f = os.path.realpath(getattr(mod, '__file__', '') or '')
        if not f.startswith(REPO + os.sep):
            del sys.modules[name]
    import cardutil
    f = os.path.realpath(cardutil.__file__)
    if not f.startswith(REPO + os.sep):
        raise HarnessError(f'cardutil imported from {f}, expected under {REPO}')
    # the library logs eagerly built f-strings and hexdumps at DEBUG/WARNING; keep stdout/stderr clean
    logging.disable(logging.CRITICAL)
    # cryptography warns on every 8/16-byte TripleDES key the library passes it; keep the check output readable
    import warnings
    warnings.simplefilter('ignore')
    return cardutil


activate()
