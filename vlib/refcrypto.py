"""From-scratch DES / Triple-DES (FIPS 46-3) and AES (FIPS 197) block encryption, ECB only.
Checked against published known-answer vectors by selftest(); a failure makes every check that relies on it exit 2."""
from vlib.repo import HarnessError

# ------------------------------------------------------------------------------------------------ DES tables

IP = [58, 50, 42, 34, 26, 18, 10, 2, 60, 52, 44, 36, 28, 20, 12, 4, 62, 54, 46, 38, 30, 22, 14, 6, 64, 56, 48, 40, 32, 24, 16, 8,
      57, 49, 41, 33, 25, 17, 9, 1, 59, 51, 43, 35, 27, 19, 11, 3, 61, 53, 45, 37, 29, 21, 13, 5, 63, 55, 47, 39, 31, 23, 15, 7]
FP = [40, 8, 48, 16, 56, 24, 64, 32, 39, 7, 47, 15, 55, 23, 63, 31, 38, 6, 46, 14, 54, 22, 62, 30, 37, 5, 45, 13, 53, 21, 61, 29,
      36, 4, 44, 12, 52, 20, 60, 28, 35, 3, 43, 11, 51, 19, 59, 27, 34, 2, 42, 10, 50, 18, 58, 26, 33, 1, 41, 9, 49, 17, 57, 25]
E = [32, 1, 2, 3, 4, 5, 4, 5, 6, 7, 8, 9, 8, 9, 10, 11, 12, 13, 12, 13, 14, 15, 16, 17,
     16, 17, 18, 19, 20, 21, 20, 21, 22, 23, 24, 25, 24, 25, 26, 27, 28, 29, 28, 29, 30, 31, 32, 1]
P = [16, 7, 20, 21, 29, 12, 28, 17, 1, 15, 23, 26, 5, 18, 31, 10, 2, 8, 24, 14, 32, 27, 3, 9, 19, 13, 30, 6, 22, 11, 4, 25]
PC1 = [57, 49, 41, 33, 25, 17, 9, 1, 58, 50, 42, 34, 26, 18, 10, 2, 59, 51, 43, 35, 27, 19, 11, 3, 60, 52, 44, 36,
       63, 55, 47, 39, 31, 23, 15, 7, 62, 54, 46, 38, 30, 22, 14, 6, 61, 53, 45, 37, 29, 21, 13, 5, 28, 20, 12, 4]
PC2 = [14, 17, 11, 24, 1, 5, 3, 28, 15, 6, 21, 10, 23, 19, 12, 4, 26, 8, 16, 7, 27, 20, 13, 2,
       41, 52, 31, 37, 47, 55, 30, 40, 51, 45, 33, 48, 44, 49, 39, 56, 34, 53, 46, 42, 50, 36, 29, 32]
SHIFTS = [1, 1, 2, 2, 2, 2, 2, 2, 1, 2, 2, 2, 2, 2, 2, 1]
SBOX = [
    [[14, 4, 13, 1, 2, 15, 11, 8, 3, 10, 6, 12, 5, 9, 0, 7], [0, 15, 7, 4, 14, 2, 13, 1, 10, 6, 12, 11, 9, 5, 3, 8],
     [4, 1, 14, 8, 13, 6, 2, 11, 15, 12, 9, 7, 3, 10, 5, 0], [15, 12, 8, 2, 4, 9, 1, 7, 5, 11, 3, 14, 10, 0, 6, 13]],
    [[15, 1, 8, 14, 6, 11, 3, 4, 9, 7, 2, 13, 12, 0, 5, 10], [3, 13, 4, 7, 15, 2, 8, 14, 12, 0, 1, 10, 6, 9, 11, 5],
     [0, 14, 7, 11, 10, 4, 13, 1, 5, 8, 12, 6, 9, 3, 2, 15], [13, 8, 10, 1, 3, 15, 4, 2, 11, 6, 7, 12, 0, 5, 14, 9]],
    [[10, 0, 9, 14, 6, 3, 15, 5, 1, 13, 12, 7, 11, 4, 2, 8], [13, 7, 0, 9, 3, 4, 6, 10, 2, 8, 5, 14, 12, 11, 15, 1],
     [13, 6, 4, 9, 8, 15, 3, 0, 11, 1, 2, 12, 5, 10, 14, 7], [1, 10, 13, 0, 6, 9, 8, 7, 4, 15, 14, 3, 11, 5, 2, 12]],
    [[7, 13, 14, 3, 0, 6, 9, 10, 1, 2, 8, 5, 11, 12, 4, 15], [13, 8, 11, 5, 6, 15, 0, 3, 4, 7, 2, 12, 1, 10, 14, 9],
     [10, 6, 9, 0, 12, 11, 7, 13, 15, 1, 3, 14, 5, 2, 8, 4], [3, 15, 0, 6, 10, 1, 13, 8, 9, 4, 5, 11, 12, 7, 2, 14]],
    [[2, 12, 4, 1, 7, 10, 11, 6, 8, 5, 3, 15, 13, 0, 14, 9], [14, 11, 2, 12, 4, 7, 13, 1, 5, 0, 15, 10, 3, 9, 8, 6],
     [4, 2, 1, 11, 10, 13, 7, 8, 15, 9, 12, 5, 6, 3, 0, 14], [11, 8, 12, 7, 1, 14, 2, 13, 6, 15, 0, 9, 10, 4, 5, 3]],
    [[12, 1, 10, 15, 9, 2, 6, 8, 0, 13, 3, 4, 14, 7, 5, 11], [10, 15, 4, 2, 7, 12, 9, 5, 6, 1, 13, 14, 0, 11, 3, 8],
     [9, 14, 15, 5, 2, 8, 12, 3, 7, 0, 4, 10, 1, 13, 11, 6], [4, 3, 2, 12, 9, 5, 15, 10, 11, 14, 1, 7, 6, 0, 8, 13]],
    [[4, 11, 2, 14, 15, 0, 8, 13, 3, 12, 9, 7, 5, 10, 6, 1], [13, 0, 11, 7, 4, 9, 1, 10, 14, 3, 5, 12, 2, 15, 8, 6],
     [1, 4, 11, 13, 12, 3, 7, 14, 10, 15, 6, 8, 0, 5, 9, 2], [6, 11, 13, 8, 1, 4, 10, 7, 9, 5, 0, 15, 14, 2, 3, 12]],
    [[13, 2, 8, 4, 6, 15, 11, 1, 10, 9, 3, 14, 5, 0, 12, 7], [1, 15, 13, 8, 10, 3, 7, 4, 12, 5, 6, 11, 0, 14, 9, 2],
     [7, 11, 4, 1, 9, 12, 14, 2, 0, 6, 10, 13, 15, 3, 5, 8], [2, 1, 14, 7, 4, 10, 8, 13, 15, 12, 9, 0, 3, 5, 6, 11]],
]


def _permute(value, table, width):
    out = 0
    for pos in table:
        out = (out << 1) | ((value >> (width - pos)) & 1)
    return out


_SUBKEY_CACHE = {}


def _subkeys(key8):
    ks = _SUBKEY_CACHE.get(key8)
    if ks is not None:
        return ks
    k = _permute(int.from_bytes(key8, 'big'), PC1, 64)
    c, d = k >> 28, k & 0xFFFFFFF
    ks = []
    for s in SHIFTS:
        c = ((c << s) | (c >> (28 - s))) & 0xFFFFFFF
        d = ((d << s) | (d >> (28 - s))) & 0xFFFFFFF
        ks.append(_permute((c << 28) | d, PC2, 56))
    if len(_SUBKEY_CACHE) > 512:
        _SUBKEY_CACHE.clear()
    _SUBKEY_CACHE[key8] = ks
    return ks


def _f(r, k):
    x = _permute(r, E, 32) ^ k
    out = 0
    for i in range(8):
        six = (x >> (42 - 6 * i)) & 0x3F
        row = ((six >> 4) & 2) | (six & 1)
        col = (six >> 1) & 0xF
        out = (out << 4) | SBOX[i][row][col]
    return _permute(out, P, 32)


def _des_block(block8, key8, decrypt=False):
    ks = _subkeys(key8)
    if decrypt:
        ks = ks[::-1]
    v = _permute(int.from_bytes(block8, 'big'), IP, 64)
    l, r = v >> 32, v & 0xFFFFFFFF
    for k in ks:
        l, r = r, l ^ _f(r, k)
    return _permute((r << 32) | l, FP, 64).to_bytes(8, 'big')


def des_encrypt(key8, block8):
    return _des_block(block8, key8)


def des_decrypt(key8, block8):
    return _des_block(block8, key8, True)


def _keys3(key):
    if len(key) == 8:
        return key, key, key
    if len(key) == 16:
        return key[:8], key[8:], key[:8]
    if len(key) == 24:
        return key[:8], key[8:16], key[16:]
    raise ValueError('3DES key must be 8, 16 or 24 bytes')


def tdes_encrypt_block(key, block8):
    k1, k2, k3 = _keys3(key)
    return _des_block(_des_block(_des_block(block8, k1), k2, True), k3)


def tdes_decrypt_block(key, block8):
    k1, k2, k3 = _keys3(key)
    return _des_block(_des_block(_des_block(block8, k3, True), k2), k1, True)


def tdes_ecb_encrypt(key, data):
    if len(data) % 8:
        raise ValueError('data not a multiple of 8 bytes')
    return b''.join(tdes_encrypt_block(key, data[i:i + 8]) for i in range(0, len(data), 8))


def tdes_ecb_decrypt(key, data):
    return b''.join(tdes_decrypt_block(key, data[i:i + 8]) for i in range(0, len(data), 8))


# ------------------------------------------------------------------------------------------------ AES

def _xtime(a):
    a <<= 1
    return (a ^ 0x11B) & 0xFF if a & 0x100 else a


def _gmul(a, b):
    out = 0
    while b:
        if b & 1:
            out ^= a
        a = _xtime(a)
        b >>= 1
    return out


def _build_sbox():
    inv = [0] * 256
    for a in range(1, 256):
        for b in range(1, 256):
            if _gmul(a, b) == 1:
                inv[a] = b
                break
    sbox = []
    for a in range(256):
        x = inv[a]
        y = x
        for _ in range(4):
            x = ((x << 1) | (x >> 7)) & 0xFF
            y ^= x
        sbox.append(y ^ 0x63)
    return sbox


AES_SBOX = _build_sbox()
MUL2 = [_gmul(a, 2) for a in range(256)]
MUL3 = [_gmul(a, 3) for a in range(256)]


def _expand(key):
    nk = len(key) // 4
    if nk not in (4, 6, 8):
        raise ValueError('AES key must be 16, 24 or 32 bytes')
    nr = nk + 6
    w = [list(key[4 * i:4 * i + 4]) for i in range(nk)]
    rcon = 1
    for i in range(nk, 4 * (nr + 1)):
        t = list(w[i - 1])
        if i % nk == 0:
            t = t[1:] + t[:1]
            t = [AES_SBOX[b] for b in t]
            t[0] ^= rcon
            rcon = _xtime(rcon)
        elif nk > 6 and i % nk == 4:
            t = [AES_SBOX[b] for b in t]
        w.append([a ^ b for a, b in zip(w[i - nk], t)])
    return [sum((w[4 * r + c] for c in range(4)), []) for r in range(nr + 1)], nr


def aes_encrypt_block(key, block16):
    rks, nr = _expand(key)
    s = [a ^ b for a, b in zip(block16, rks[0])]
    for rnd in range(1, nr + 1):
        s = [AES_SBOX[b] for b in s]
        # shift rows (state is column-major: index = 4*col + row)
        s = [s[4 * ((c + r) % 4) + r] for c in range(4) for r in range(4)]
        if rnd != nr:
            t = []
            for c in range(4):
                a0, a1, a2, a3 = s[4 * c:4 * c + 4]
                t += [MUL2[a0] ^ MUL3[a1] ^ a2 ^ a3, a0 ^ MUL2[a1] ^ MUL3[a2] ^ a3,
                      a0 ^ a1 ^ MUL2[a2] ^ MUL3[a3], MUL3[a0] ^ a1 ^ a2 ^ MUL2[a3]]
            s = t
        s = [a ^ b for a, b in zip(s, rks[rnd])]
    return bytes(s)


def aes_ecb_encrypt(key, data):
    if len(data) % 16:
        raise ValueError('data not a multiple of 16 bytes')
    return b''.join(aes_encrypt_block(key, data[i:i + 16]) for i in range(0, len(data), 16))


# ------------------------------------------------------------------------------------------------ known answers

_checked = False


def selftest():
    global _checked
    if _checked:
        return
    h = bytes.fromhex
    kats = [
        (des_encrypt(h('0123456789ABCDEF'), h('4E6F772069732074')), h('3FA40E8A984D4815'), 'DES FIPS-81 "Now is t"'),
        (des_encrypt(h('133457799BBCDFF1'), h('0123456789ABCDEF')), h('85E813540F0AB405'), 'DES textbook vector'),
        (des_decrypt(h('133457799BBCDFF1'), h('85E813540F0AB405')), h('0123456789ABCDEF'), 'DES decrypt'),
        (des_encrypt(h('0101010101010101'), h('8000000000000000')), h('95F8A5E5DD31D900'), 'DES NIST variable plaintext'),
        (des_encrypt(h('8001010101010101'), h('0000000000000000')), h('95A8D72813DAA94D'), 'DES NIST variable key'),
        (tdes_encrypt_block(h('0123456789ABCDEF23456789ABCDEF01456789ABCDEF0123'), h('5468652071756663')),
         h('A826FD8CE53B855F'), '3DES SP800-67 three-key'),
        (tdes_decrypt_block(h('0123456789ABCDEF23456789ABCDEF01456789ABCDEF0123'), h('A826FD8CE53B855F')),
         h('5468652071756663'), '3DES decrypt'),
        (aes_encrypt_block(h('000102030405060708090a0b0c0d0e0f'), h('00112233445566778899aabbccddeeff')),
         h('69c4e0d86a7b0430d8cdb78070b4c55a'), 'AES-128 FIPS-197 C.1'),
        (aes_encrypt_block(h('000102030405060708090a0b0c0d0e0f1011121314151617'), h('00112233445566778899aabbccddeeff')),
         h('dda97ca4864cdfe06eaf70a0ec0d7191'), 'AES-192 FIPS-197 C.2'),
        (aes_encrypt_block(h('000102030405060708090a0b0c0d0e0f101112131415161718191a1b1c1d1e1f'), h('00112233445566778899aabbccddeeff')),
         h('8ea2b7ca516745bfeafc49904b496089'), 'AES-256 FIPS-197 C.3'),
        (aes_encrypt_block(h('2b7e151628aed2a6abf7158809cf4f3c'), h('6bc1bee22e409f96e93d7e117393172a')),
         h('3ad77bb40d7a3660a89ecaf32466ef97'), 'AES-128 SP800-38A ECB'),
    ]
    for got, want, name in kats:
        if got != want:
            raise HarnessError(f'reference cipher known-answer test failed: {name}: {got.hex()} != {want.hex()}')
    # two-key 3DES with K1 == K2 degenerates to single DES
    k = h('0123456789ABCDEF')
    if tdes_encrypt_block(k + k, h('4E6F772069732074')) != h('3FA40E8A984D4815'):
        raise HarnessError('reference 3DES degenerate-key test failed')
    _checked = True
