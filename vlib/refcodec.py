"""Independent ISO8583 reference codec, written from cardutil's documentation (config.py and iso8583.py docstrings),
the property statements and the literal vectors pinned by the repository's tests.  Shares no code with cardutil.

encode(config, codec, hex_bitmap, message)            -> bytes
decode(config, codec, hex_bitmap, data, strict=True)  -> Result

Result.ok          True/False
Result.values      the dictionary an exact reading of the message yields (derived entries included)
Result.dontcare    keys whose value no documentation defines for this input (lenient mode only)
Result.reason      why the message is not well-framed (when not ok)
Result.frames      byte spans [(kind, bit, start, end)] of the exact reading; kinds: mti, bitmap, len, value,
                   pds_tag, pds_len, pds_val, tlv_tag, tlv_len, tlv_val
Result.reached     set of stage names the walk reached ('fields', 'pds', 'icc')

Strict mode accepts exactly the well-framed language: plain ASCII-decimal numerals, in-bounds exact tiling, decodable
text, convertible typed values, well-formed PDS and TLV content, no repeated derived key.
Lenient mode reads numerals the way a tolerant reader would (Python int() semantics) but still demands non-negative,
in-bounds, exact tiling of the bitmap elements; content whose reading no document defines (PDS value running past its
carrier, malformed TLV, repeated tags) is reported under dontcare instead of being judged.
"""
import datetime
import decimal
import re
import signal
import threading

from vlib.repo import HarnessError

ASCII_DIGITS = '0123456789'
HEXLOWER = '0123456789abcdef'


# ------------------------------------------------------------------------------------------------ helpers

def length_digits(cfg):
    t = cfg['field_type']
    if t == 'LLVAR':
        return 2
    if t == 'LLLVAR':
        return 3
    return 0


def present(value):
    """documented: empty cells / None mean absent, the number zero is a value"""
    if value is None:
        return False
    if isinstance(value, (int, float, decimal.Decimal)) and not isinstance(value, bool):
        return True
    return bool(value)


def mask_pan(text, ch='*'):
    n = len(text)
    return text[:6] + ch * (n - 10) + text[n - 4:]


def plain_number(text):
    return len(text) > 0 and all(c in ASCII_DIGITS for c in text)


def zero_pad(text, width):
    return '0' * (width - len(text)) + text if len(text) < width else text


def render_value(cfg, value):
    """python value -> text (str) or raw bytes, before padding"""
    ptype = cfg.get('field_python_type')
    width = cfg.get('field_length', 0) or 0
    if ptype in ('int', 'long'):
        return zero_pad(str(int(value)), width)
    if ptype == 'decimal':
        d = value if isinstance(value, decimal.Decimal) else decimal.Decimal(value)
        sign, digits, exp = d.as_tuple()
        ds = ''.join(str(x) for x in digits)
        if exp >= 0:
            text = ds + '0' * exp
        else:
            if len(ds) <= -exp:
                ds = '0' * (-exp - len(ds) + 1) + ds
            text = ds[:exp] + '.' + ds[exp:]
        if sign:
            raise ValueError('negative decimals are outside the generated domain')
        return zero_pad(text, width)
    if ptype == 'datetime':
        fmt = cfg.get('field_date_format', '%y%m%d')
        return value.strftime(fmt)
    return value


def pack_pds(pds_items, capacity=999):
    """[(tag:int, value:str)] ascending -> list of carrier strings (greedy, each <= capacity characters)"""
    carriers = []
    cur = ''
    for tag, value in sorted(pds_items):
        item = zero_pad(str(tag), 4) + zero_pad(str(len(value)), 3) + value
        if len(cur) + len(item) > capacity:
            carriers.append(cur)
            cur = ''
        cur += item
    if cur:
        carriers.append(cur)
    return carriers


def pds_carrier_bits(config):
    return sorted(int(b) for b, c in config.items() if c.get('field_processor') == 'PDS')


def bitmap_bytes(bits):
    n = 1 << 127  # bit 1 always on
    for b in bits:
        n |= 1 << (128 - b)
    return n.to_bytes(16, 'big')


def hex_render(raw):
    return ''.join(HEXLOWER[b >> 4] + HEXLOWER[b & 15] for b in raw)


# ------------------------------------------------------------------------------------------------ encode

class Unrepresentable(Exception):
    pass


def encode(config, codec, hex_bitmap, message):
    """message: MTI, DEn (python values), PDSxxxx (str). Raises Unrepresentable for values the layout cannot carry."""
    msg = dict(message)
    pds = [(int(k[3:]), v) for k, v in msg.items() if k.startswith('PDS')]
    if pds:
        carriers = pack_pds(pds)
        bits = pds_carrier_bits(config)
        if len(carriers) > len(bits):
            raise Unrepresentable('PDS data exceeds the configured carriers')
        for b, c in zip(bits, carriers):
            msg['DE%d' % b] = c
    body = bytearray()
    on = []
    for bit in range(2, 128):
        v = msg.get('DE%d' % bit)
        if not present(v):
            continue
        cfg = config[str(bit)]
        on.append(bit)
        rendered = render_value(cfg, v)
        nd = length_digits(cfg)
        if nd:
            n = len(rendered)
            if n >= 10 ** nd:
                raise Unrepresentable(f'DE{bit}: {n} does not fit a {nd}-digit count')
            body += zero_pad(str(n), nd).encode(codec)
            body += rendered if isinstance(rendered, (bytes, bytearray)) else rendered.encode(codec)
        else:
            width = cfg['field_length']
            if isinstance(rendered, (bytes, bytearray)):
                body += bytes(rendered[:width]).ljust(width, b' ')
            else:
                if len(rendered) > width:
                    raise Unrepresentable(f'DE{bit}: value wider than the fixed field')
                body += rendered.ljust(width, ' ').encode(codec)
    raw = bitmap_bytes(on)
    bm = hex_render(raw).encode('ascii') if hex_bitmap else raw
    mti = msg.get('MTI') or ''
    return mti.encode(codec) + bm + bytes(body)


# ------------------------------------------------------------------------------------------------ decode

class Result:
    def __init__(self):
        self.ok = False
        self.values = None
        self.dontcare = set()
        self.reason = None
        self.frames = []
        self.reached = set()

    def __repr__(self):
        return f'Result(ok={self.ok}, reason={self.reason!r}, values={self.values!r}, dontcare={sorted(self.dontcare)})'


class _Reject(Exception):
    pass


def _numeral(text, strict, what):
    """declared length -> int, or reject"""
    if strict:
        if not plain_number(text):
            raise _Reject(f'{what}: numeral {text!r} is not plain decimal')
        return int(text)
    try:
        n = int(text)
    except ValueError:
        raise _Reject(f'{what}: numeral {text!r} unreadable')
    if n < 0:
        raise _Reject(f'{what}: negative declared length {n}')
    return n


def _convert(cfg, text, strict, bit):
    ptype = cfg.get('field_python_type')
    if ptype in ('int', 'long'):
        if strict:
            if not plain_number(text):
                raise _Reject(f'DE{bit}: {text!r} is not a plain decimal number')
            return int(text)
        try:
            return int(text)
        except ValueError:
            raise _Reject(f'DE{bit}: {text!r} not convertible to int')
    if ptype == 'decimal':
        if strict:
            if not re.fullmatch(r'[0-9]+(\.[0-9]+)?', text, re.A):
                raise _Reject(f'DE{bit}: {text!r} is not a plain decimal')
            return decimal.Decimal(text)
        try:
            return decimal.Decimal(text)
        except (decimal.InvalidOperation, ValueError):
            raise _Reject(f'DE{bit}: {text!r} not convertible to decimal')
    if ptype == 'datetime':
        fmt = cfg.get('field_date_format', '%y%m%d')
        try:
            return datetime.datetime.strptime(text, fmt)  # the documentation defines the field by strptime
        except ValueError:
            raise _Reject(f'DE{bit}: {text!r} does not match {fmt}')
    return text


def _walk_pds(text, strict, res, base, bit, nbytes_per_char=1):
    """returns (dict, dontcare_keys)"""
    out = {}
    dontcare = set()
    p = 0
    n = len(text)
    res.reached.add('pds')
    while p < n:
        tag = text[p:p + 4]
        ln_text = text[p + 4:p + 7]
        if len(tag) < 4 or len(ln_text) < 3:
            if strict:
                raise _Reject(f'DE{bit}: PDS header cut short at {p}')
            # the statement frames bitmap elements; what a reader makes of a ragged carrier tail is not defined
            dontcare.add('PDS*')
            break
        if strict and not plain_number(tag):
            raise _Reject(f'DE{bit}: PDS tag {tag!r} is not four digits')
        if strict:
            ln = _numeral(ln_text, True, f'DE{bit} PDS{tag}')
        else:
            try:
                ln = int(ln_text)
            except ValueError:
                dontcare.add('PDS*')
                break
            if ln < 0:
                # values would overlap: this is a mis-frame whatever else the carrier holds
                raise _Reject(f'DE{bit} PDS{tag}: negative declared length {ln}')
        val = text[p + 7:p + 7 + ln]
        res.frames.append(('pds_tag', bit, base + p, base + p + 4))
        res.frames.append(('pds_len', bit, base + p + 4, base + p + 7))
        res.frames.append(('pds_val', bit, base + p + 7, base + p + 7 + len(val)))
        key = 'PDS' + tag
        if len(val) < ln:
            if strict:
                raise _Reject(f'DE{bit}: {key} runs past the end of its carrier')
            dontcare.add(key)  # no document says what a reader returns for it
        if key in out:
            if strict:
                raise _Reject(f'DE{bit}: {key} repeated')
            dontcare.add(key)
        out[key] = val
        p += 7 + ln
    return out, dontcare


def _walk_tlv(raw, strict, res, base, bit):
    out = {'ICC_DATA': hex_render(raw)}
    dontcare = set()
    p = 0
    n = len(raw)
    res.reached.add('icc')
    try:
        while p < n:
            first = raw[p]
            if first in (0x9f, 0x5f):
                if p + 2 > n:
                    raise _Reject(f'DE{bit}: two-byte tag cut short')
                tag = raw[p:p + 2]
                tl = 2
            else:
                tag = raw[p:p + 1]
                tl = 1
            if tag == b'\x00':
                break  # padding: the walk stops at a low-values tag
            if p + tl >= n:
                raise _Reject(f'DE{bit}: TLV length byte missing')
            ln = raw[p + tl]
            val = raw[p + tl + 1:p + tl + 1 + ln]
            res.frames.append(('tlv_tag', bit, base + p, base + p + tl))
            res.frames.append(('tlv_len', bit, base + p + tl, base + p + tl + 1))
            res.frames.append(('tlv_val', bit, base + p + tl + 1, base + p + tl + 1 + len(val)))
            key = 'TAG' + hex_render(tag).upper()
            if len(val) < ln:
                raise _Reject(f'DE{bit}: {key} value cut short')
            if key in out:
                raise _Reject(f'DE{bit}: {key} repeated')
            out[key] = hex_render(val)
            p += tl + 1 + ln
    except _Reject:
        if strict:
            raise
        # malformed TLV content: derived TAG entries are undefined, the raw element is still an exact reading
        return {'ICC_DATA': hex_render(raw)}, {'TAG*'}
    return out, dontcare


class _RegexTimeout(BaseException):
    pass


def _raise_timeout(signum, frame):
    raise _RegexTimeout()


def bounded_match(rx, text, limit=5.0):
    """re.match under a wall-clock limit: the expression belongs to the configuration under test, and an expression that
    backtracks exponentially must make the run inconclusive (exit 2) instead of hanging the reference"""
    if threading.current_thread() is not threading.main_thread():
        return re.match(rx, text)
    old = signal.signal(signal.SIGALRM, _raise_timeout)
    signal.setitimer(signal.ITIMER_REAL, limit)
    try:
        return re.match(rx, text)
    except _RegexTimeout:
        raise HarnessError(f'reference: the configured DE43 expression did not finish within {limit}s on {text[:60]!r}; inconclusive')
    finally:
        signal.setitimer(signal.ITIMER_REAL, 0)
        signal.signal(signal.SIGALRM, old)


def decode(config, codec, hex_bitmap, data, strict=True, de43=True):
    """de43=False skips the DE43 expression (framing only: used where the reference is not the oracle, e.g. for frame maps)"""
    res = Result()
    try:
        res.values, res.dontcare = _decode(config, codec, hex_bitmap, bytes(data), strict, res, de43)
        res.ok = True
    except _Reject as ex:
        res.reason = str(ex)
    return res


def _decode(config, codec, hex_bitmap, data, strict, res, de43=True):
    bmlen = 32 if hex_bitmap else 16
    if len(data) < 4 + bmlen:
        raise _Reject('shorter than MTI + bitmap')
    try:
        mti = data[:4].decode(codec)
    except UnicodeDecodeError:
        raise _Reject('MTI not decodable')
    if strict:
        if not plain_number(mti):
            raise _Reject('MTI is not four decimal digits')
    else:
        try:
            int(mti)
        except ValueError:
            raise _Reject('MTI not numeric')
    res.frames.append(('mti', 0, 0, 4))
    bm = data[4:4 + bmlen]
    res.frames.append(('bitmap', 0, 4, 4 + bmlen))
    if hex_bitmap:
        try:
            text = bm.decode('ascii')
        except UnicodeDecodeError:
            raise _Reject('hex bitmap is not ASCII')
        if strict:
            if any(c not in HEXLOWER for c in text):
                raise _Reject('hex bitmap is not lowercase hexadecimal')
        elif any(c not in HEXLOWER + 'ABCDEF' for c in text):
            raise _Reject('hex bitmap is not hexadecimal')
        bits_int = int(text, 16)
    else:
        bits_int = int.from_bytes(bm, 'big')
    dontcare = set()
    if not (bits_int >> 127) & 1 and strict:
        # the documented layout has bit 1 set; the lenient reading ignores bit 1 (the bitmap is always 16 bytes)
        raise _Reject('bit 1 clear')
    if bits_int & 1:
        # bit 128 set: element 128 lies outside the documented DE1-127 domain, no exact reading is defined
        if strict:
            raise _Reject('bit 128 set')
        dontcare.add('*')
    values = {'MTI': mti}
    pos = 4 + bmlen
    total = len(data)
    res.reached.add('header')
    for bit in range(2, 128):
        if not (bits_int >> (128 - bit)) & 1:
            continue
        cfg = config.get(str(bit))
        if not cfg:
            raise _Reject(f'bit {bit} has no configuration')
        res.reached.add('fields')
        nd = length_digits(cfg)
        if nd:
            if pos + nd > total:
                raise _Reject(f'DE{bit}: length prefix cut short')
            try:
                ptxt = data[pos:pos + nd].decode(codec)
            except UnicodeDecodeError:
                raise _Reject(f'DE{bit}: length prefix not decodable')
            n = _numeral(ptxt, strict, f'DE{bit}')
            res.frames.append(('len', bit, pos, pos + nd))
            pos += nd
        else:
            n = cfg['field_length']
        if pos + n > total:
            raise _Reject(f'DE{bit}: declared {n} bytes, {total - pos} remain')
        raw = data[pos:pos + n]
        res.frames.append(('value', bit, pos, pos + n))
        proc = cfg.get('field_processor')
        key = 'DE%d' % bit
        if proc == 'ICC':
            values[key] = raw
            derived, dc = _walk_tlv(raw, strict, res, pos, bit)
            if 'TAG*' in dc:
                dontcare.add('TAG*')
            else:
                dontcare |= dc
            _merge(values, derived, dontcare, strict, bit)
        else:
            try:
                text = raw.decode(codec)
            except UnicodeDecodeError:
                raise _Reject(f'DE{bit}: value not decodable')
            if proc == 'PAN':
                if len(text) < 10:
                    if strict:
                        raise _Reject(f'DE{bit}: PAN shorter than 10 characters has no defined mask')
                    dontcare.add(key)
                text = mask_pan(text)
            elif proc == 'PAN-PREFIX':
                text = text[:9]
            values[key] = _convert(cfg, text, strict, bit)
            if proc == 'PDS':
                derived, dc = _walk_pds(text, strict, res, pos, bit)
                dontcare |= dc
                _merge(values, derived, dontcare, strict, bit)
            elif proc == 'DE43':
                rx = cfg.get('field_processor_config')
                if rx and de43:
                    m = bounded_match(rx, text)
                    if m:
                        g = dict(m.groupdict())
                        if g.get('DE43_POSTCODE'):
                            g['DE43_POSTCODE'] = g['DE43_POSTCODE'].rstrip()
                        _merge(values, g, dontcare, strict, bit)
        pos += n
    if pos != total:
        raise _Reject(f'{total - pos} bytes left over after the last element')
    return values, dontcare


def _merge(values, derived, dontcare, strict, bit):
    for k, v in derived.items():
        if k in values:
            if strict:
                raise _Reject(f'DE{bit}: derived key {k} repeated')
            dontcare.add(k)
        values[k] = v


def compare(values, got, dontcare):
    """None if `got` is the exact reading `values` outside the don't-care keys, else a description"""
    if '*' in dontcare:
        return None
    for k in set(values) | set(got):
        if k in dontcare or (k.startswith('TAG') and 'TAG*' in dontcare) or (k.startswith('PDS') and 'PDS*' in dontcare):
            continue
        if k not in got:
            return f'key {k} missing (expected {values[k]!r})'
        if k not in values:
            return f'unexpected key {k} = {got[k]!r}'
        a, b = values[k], got[k]
        if type(a) is not type(b) and not (isinstance(a, (bytes, bytearray)) and isinstance(b, (bytes, bytearray))):
            return f'{k}: type {type(b).__name__}, expected {type(a).__name__} ({b!r} vs {a!r})'
        if isinstance(a, decimal.Decimal):
            if a.compare_total(b) != 0:  # NaN-safe, representation-exact (both sides come from the same text)
                return f'{k}: {b!r}, expected {a!r}'
        elif a != b:
            return f'{k}: {b!r}, expected {a!r}'
    return None
