"""Mutation engine over the frame map of a valid ISO8583 message (shared by C07, C08, C10).

An op list is plain data (replayable): each op is a tuple
  ('sub', pos, byte)            substitute one byte
  ('num', span_idx, text)       overwrite a numeral span (len prefix / PDS length / TLV length) with text bytes
  ('bit', n)                    toggle bitmap bit n (1..128); hex bitmaps are re-rendered
  ('trunc', n)                  keep the first n bytes
  ('ext', bytes)                append bytes
  ('ins', pos, bytes)           insert bytes
  ('del', pos, n)               delete n bytes
  ('dup', start, end, pos)      splice a copy of [start:end) in at pos
  ('bmshift', k, bit1)          shift the whole 128-bit bitmap by k positions (k>0: towards higher bit numbers), then force
                                bit 1 to `bit1` (None = leave): the off-by-one-bit-number shape
  ('fill', pos, n, byte)        overwrite n bytes starting at pos with one byte value
  ('neg', span_idx, k)          length prefix := -k, its value and the next k bytes removed (the next element then starts
                                inside the prefix: the overlapping-elements shape)
Positions are clamped to the current length, so every op list applies to every message.
"""
from hypothesis import strategies as st

from vlib import codecs_, refcodec
from vlib.strat import uniform

NUMERAL_KINDS = ('len', 'pds_len', 'tlv_len')
FILL_BYTES = [0x20, 0x09, 0x0a, 0x0d, 0x00, 0xff, 0x40, 0x30, 0x2d, 0x5f, 0x66, 0x46, 0x67, 0xf0]


def frames_of(config, codec, hexbm, data):
    res = refcodec.decode(config, codec, hexbm, data, strict=True, de43=False)
    return res.frames if res.ok else [('mti', 0, 0, 4), ('bitmap', 0, 4, 4 + (32 if hexbm else 16))]


def numeral_spans(frames):
    return [f for f in frames if f[0] in NUMERAL_KINDS]


def apply(data, ops, frames, codec, hexbm):
    data = bytearray(data)
    nums = numeral_spans(frames)
    for op in ops:
        kind = op[0]
        n = len(data)
        if kind == 'sub':
            if n:
                data[min(op[1], n - 1)] = op[2]
        elif kind == 'num':
            if nums:
                _, _, s, e = nums[op[1] % len(nums)]
                enc = op[2] if isinstance(op[2], (bytes, bytearray)) else _enc(op[2], codec)
                if nums[op[1] % len(nums)][0] == 'tlv_len':
                    enc = enc[:1] or b'\x00'
                if e <= n:
                    data[s:e] = (enc + b'0' * (e - s))[:e - s] if len(enc) < e - s else enc[:e - s]
        elif kind == 'bmshift':
            width = 32 if hexbm else 16
            if n >= 4 + width:
                try:
                    v = int(bytes(data[4:36]).decode('ascii'), 16) if hexbm else int.from_bytes(data[4:20], 'big')
                except (ValueError, UnicodeDecodeError):
                    continue
                k = op[1]
                v = (v >> k) if k > 0 else (v << -k)
                v &= (1 << 128) - 1
                if op[2] is not None:
                    v = (v | (1 << 127)) if op[2] else (v & ~(1 << 127))
                data[4:4 + width] = ('%032x' % v).encode('ascii') if hexbm else v.to_bytes(16, 'big')
        elif kind == 'fill':
            p = min(op[1], n)
            m = min(op[2], n - p)
            data[p:p + m] = bytes([op[3]]) * m
        elif kind == 'neg':
            lens = [i for i, f in enumerate(frames) if f[0] == 'len']
            if lens:
                i = lens[op[1] % len(lens)]
                _, _, s, e = frames[i]
                ve = frames[i + 1][3] if i + 1 < len(frames) and frames[i + 1][0] == 'value' else e
                w = e - s
                k = max(1, min(op[2], 10 ** (w - 1) - 1))
                if ve + k <= n:
                    data[s:] = _enc('-' + str(k).zfill(w - 1), codec) + bytes(data[ve + k:])
        elif kind == 'bit':
            b = op[1]
            if hexbm:
                if n >= 36:
                    try:
                        v = int(bytes(data[4:36]).decode('ascii'), 16)
                    except (ValueError, UnicodeDecodeError):
                        continue
                    v ^= 1 << (128 - b)
                    data[4:36] = ('%032x' % v).encode('ascii')
            elif n >= 20:
                idx = 4 + (b - 1) // 8
                data[idx] ^= 0x80 >> ((b - 1) % 8)
        elif kind == 'trunc':
            del data[min(op[1], n):]
        elif kind == 'ext':
            data += op[1]
        elif kind == 'ins':
            p = min(op[1], n)
            data[p:p] = op[2]
        elif kind == 'del':
            p = min(op[1], n)
            del data[p:p + op[2]]
        elif kind == 'dup':
            s, e, p = min(op[1], n), min(op[2], n), min(op[3], n)
            data[p:p] = data[s:e]
    return bytes(data)


def _enc(text, codec):
    out = bytearray()
    for ch in text:
        try:
            out += ch.encode(codec)
        except UnicodeEncodeError:
            out += b'?'
    return bytes(out)


def numeral_texts(codec, width):
    """replacement numerals aimed at a reader's number parsing"""
    extra = codecs_.extra_digits(codec)
    pool = ['0' * width, '9' * width, '-' + '1' * (width - 1), '+' + '1' * (width - 1), ' ' + '1' * (width - 1),
            '1' * (width - 1) + ' ', '-' + '0' * (width - 1), ' ' * width, '0' * (width - 1) + '1', '0' * (width - 1) + '7',
            '1' + '0' * (width - 1), '\x00' * width, '.' + '1' * (width - 1)]
    if width == 3:
        pool += ['1_0', '-07', '+07', ' 07', '7  ', '1e1', '0x1', '-00', '099', '100', '999', '007']
    if width == 2:
        pool += ['-7', '+7', ' 7', '7 ', '1_', '_1', '00', '01', '99', '-0']
    if extra:
        pool += [extra[1] * width, '0' * (width - 1) + extra[3], extra[0] * width]
    return [p[:width] for p in pool]


@st.composite
def op_lists(draw, data_len, frames, codec, min_ops=1, max_ops=4):
    nums = numeral_spans(frames)
    ops = []
    k = draw(uniform(min_ops, max_ops))
    for _ in range(k):
        choices = ['sub', 'sub', 'bit', 'trunc', 'ext', 'ins', 'del', 'dup', 'fill', 'bmfill', 'bmshift']
        if nums:
            choices += ['num', 'num', 'num', 'numsub', 'numsub']
        if any(f[0] == 'len' for f in frames):
            choices += ['neg']
        kind = draw(st.sampled_from(choices))
        if kind == 'sub':
            ops.append(('sub', draw(uniform(0, max(0, data_len - 1))), draw(uniform(0, 255))))
        elif kind == 'numsub':
            _, _, s, e = nums[draw(uniform(0, len(nums) - 1))]
            ops.append(('sub', draw(uniform(s, max(s, e - 1))), draw(uniform(0, 255))))
        elif kind == 'num':
            idx = draw(uniform(0, len(nums) - 1))
            width = nums[idx][3] - nums[idx][2]
            if nums[idx][0] == 'tlv_len':
                ops.append(('num', idx, bytes([draw(st.sampled_from([0, 1, 2, 127, 128, 254, 255]))])))
            else:
                ops.append(('num', idx, draw(st.sampled_from(numeral_texts(codec, width)))))
        elif kind == 'neg':
            ops.append(('neg', draw(uniform(0, 30)), draw(uniform(1, 12))))
        elif kind == 'bmshift':
            ops.append(('bmshift', draw(st.sampled_from([1, 1, -1, -1, 2, -2, 8, -8])), draw(st.sampled_from([None, False, False, True]))))
        elif kind == 'fill':
            ops.append(('fill', draw(uniform(0, max(0, data_len - 1))), draw(uniform(2, 6)), draw(st.sampled_from(FILL_BYTES))))
        elif kind == 'bmfill':
            # a run inside the bitmap (bytes 4..36 cover both renderings), aligned or not
            ops.append(('fill', draw(uniform(4, 35)), draw(st.sampled_from([2, 2, 3, 4, 8, 32])), draw(st.sampled_from(FILL_BYTES))))
        elif kind == 'bit':
            ops.append(('bit', draw(st.one_of(st.sampled_from([1, 2, 64, 65, 127, 128]), uniform(1, 128)))))
        elif kind == 'trunc':
            ops.append(('trunc', draw(uniform(0, data_len))))
        elif kind == 'ext':
            ops.append(('ext', draw(st.binary(min_size=1, max_size=12))))
        elif kind == 'ins':
            ops.append(('ins', draw(uniform(0, data_len)), draw(st.binary(min_size=1, max_size=6))))
        elif kind == 'del':
            ops.append(('del', draw(uniform(0, data_len)), draw(uniform(1, 8))))
        else:
            a = draw(uniform(0, data_len))
            b = draw(uniform(a, min(data_len, a + 40)))
            ops.append(('dup', a, b, draw(uniform(0, data_len))))
    return ops
