"""Single-byte codec universe and per-codec repertoires."""
import codecs
import functools
import importlib
import pkgutil

import encodings

DIGITS = '0123456789'


@functools.lru_cache(None)
def universe():
    """every table-driven single-byte codec shipped with Python that can carry ASCII digits and the blank"""
    names = []
    for m in pkgutil.iter_modules(encodings.__path__):
        try:
            mod = importlib.import_module('encodings.' + m.name)
        except Exception:  # noqa
            continue
        table = getattr(mod, 'decoding_table', None)
        if isinstance(table, str) and len(table) == 256:
            names.append(m.name)
    names += ['ascii', 'latin_1']
    good = []
    for n in sorted(set(names)):
        try:
            ok = all(len(c.encode(n)) == 1 and c.encode(n).decode(n) == c for c in DIGITS + ' ')
        except Exception:  # noqa
            ok = False
        if ok:
            good.append(n)
    return tuple(good)


@functools.lru_cache(None)
def family(name):
    z = '0'.encode(name)
    if z == b'\x30':
        return 'ascii'
    if z == b'\xf0':
        return 'ebcdic'
    return 'other'


@functools.lru_cache(None)
def repertoire(name):
    """characters that survive encode-then-decode as exactly one byte, sorted"""
    chars = []
    for b in range(256):
        try:
            c = bytes([b]).decode(name)
        except UnicodeDecodeError:
            continue
        if len(c) != 1:
            continue
        try:
            if c.encode(name) == bytes([b]):
                chars.append(c)
        except UnicodeEncodeError:
            continue
    return ''.join(sorted(set(chars)))


@functools.lru_cache(None)
def undecodable_bytes(name):
    out = []
    for b in range(256):
        try:
            bytes([b]).decode(name)
        except UnicodeDecodeError:
            out.append(b)
    return bytes(out)


@functools.lru_cache(None)
def extra_digits(name):
    """non-ASCII characters of the repertoire that Python's int() reads as a digit (e.g. Arabic-Indic in cp864)"""
    out = []
    for c in repertoire(name):
        if c not in DIGITS:
            try:
                int(c)
                out.append(c)
            except ValueError:
                pass
    return ''.join(out)


QUICK = ('latin_1', 'ascii', 'cp500', 'cp037', 'cp1252', 'cp875', 'cp864')
EBCDIC = tuple(n for n in ('cp037', 'cp273', 'cp424', 'cp500', 'cp875', 'cp1026', 'cp1140'))


def printable(name):
    """repertoire without C0/C1 controls and DEL (for CSV-facing checks)"""
    return ''.join(c for c in repertoire(name) if c.isprintable())


if __name__ == '__main__':
    u = universe()
    print(len(u), 'codecs')
    for n in u:
        print(n, family(n), len(repertoire(n)), repr(extra_digits(n)), len(undecodable_bytes(n)))


@functools.lru_cache(maxsize=None)
def spellings(codec):
    """other names Python knows the same codec by (aliases, upper case, hyphens): an encoding name is passed through to
    str.encode / bytes.decode, so every spelling selects the same codec"""
    import encodings.aliases
    out = [codec]
    for alias, target in sorted(encodings.aliases.aliases.items()):
        if target == codec and alias not in out:
            out.append(alias)
    out += [codec.upper(), codec.replace('_', '-')]
    good = []
    for name in out:
        try:
            if codecs.lookup(name).name == codecs.lookup(codec).name and name not in good:
                good.append(name)
        except LookupError:
            pass
    return tuple(good)


def spell(codec, k):
    """the k-th spelling of the codec name (k = 0 mod 3: the canonical name)"""
    if k % 3 == 0:
        return codec
    names = spellings(codec)[1:]
    return names[(k * 7) % len(names)] if names else codec
