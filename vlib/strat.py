"""Strategy helpers. Hypothesis' bounded integers() returns the lower bound for roughly a third of the draws
(measured), which is wrong for positions and lengths that must be spread; sampled_from(range) is uniform."""
from hypothesis import strategies as st


def uniform(lo, hi):
    """uniform integer in [lo, hi]"""
    if hi < lo:
        hi = lo
    return st.sampled_from(range(lo, hi + 1))
