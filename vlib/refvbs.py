"""Independent reference for VBS framing and 1014 blocking, written from the module documentation of
cardutil.mciipm (shares no code with it)."""

BLOCK = 1014
PAYLOAD = 1012
FILL = 0x40


def vbs(records):
    """each record preceded by its length as 4 big-endian bytes, terminated by a zero length"""
    out = bytearray()
    for r in records:
        out += len(r).to_bytes(4, 'big')
        out += r
    out += (0).to_bytes(4, 'big')
    return bytes(out)


def block(stream):
    """1012 payload bytes + two 0x40 per block; last block filled with 0x40; empty stream -> no block"""
    out = bytearray()
    for i in range(0, len(stream), PAYLOAD):
        chunk = stream[i:i + PAYLOAD]
        out += chunk
        out += bytes([FILL]) * (PAYLOAD - len(chunk))
        out += bytes([FILL, FILL])
    return bytes(out)


def check_blocked(file_bytes, data):
    """validity predicate of C04: returns None if file_bytes is a correct 1014 rendering of data, else a reason"""
    n = len(file_bytes)
    if n % BLOCK:
        return f'length {n} is not a multiple of 1014'
    nblocks = n // BLOCK
    for b in range(nblocks):
        if file_bytes[b * BLOCK + PAYLOAD:(b + 1) * BLOCK] != b'\x40\x40':
            return f'block {b} does not end in two 0x40 bytes'
    payload = b''.join(file_bytes[b * BLOCK:b * BLOCK + PAYLOAD] for b in range(nblocks))
    if len(payload) < len(data):
        return f'payload holds {len(payload)} bytes, {len(data)} were written'
    if payload[:len(data)] != data:
        i = next(i for i in range(len(data)) if payload[i] != data[i])
        return f'payload differs from the data written at offset {i}'
    rest = payload[len(data):]
    if rest.strip(b'\x40'):
        return 'bytes after the data are not all 0x40 fill'
    # at most one block holds fill only: the data must reach into the last-but-one block at least
    needed = -(-len(data) // PAYLOAD)  # ceil
    if nblocks > needed + 1:
        return f'{nblocks} blocks for {len(data)} data bytes: more than one block holds fill only'
    return None


def payload_of(file_bytes):
    """payload stream of a possibly truncated blocked file: first 1012 bytes of each (partial) block"""
    out = bytearray()
    for i in range(0, len(file_bytes), BLOCK):
        out += file_bytes[i:i + BLOCK][:PAYLOAD]
    return bytes(out)


def unblock_strict(file_bytes):
    """('ok', payload) or ('error', reason): whole number of blocks with correct trailers"""
    if len(file_bytes) % BLOCK:
        return 'error', 'not a whole number of blocks'
    out = bytearray()
    for i in range(0, len(file_bytes), BLOCK):
        blk = file_bytes[i:i + BLOCK]
        if blk[PAYLOAD:] != b'\x40\x40':
            return 'error', f'bad trailer in block {i // BLOCK}'
        out += blk[:PAYLOAD]
    return 'ok', bytes(out)


def complete_records(stream, max_len=6000):
    """Walk a VBS byte stream. Returns (records, ending, info) where ending is one of
    'end'       zero length met
    'eof'       stream exhausted exactly at a record boundary (or inside a 4-byte prefix)
    'short'     a record's declared bytes are not all there   (info = (prefix, bytes available))
    'toolong'   a declared length above max_len               (info = (prefix,))
    """
    records = []
    pos = 0
    n = len(stream)
    while True:
        if n - pos < 4:
            return records, 'eof', (stream[pos:],)
        prefix = stream[pos:pos + 4]
        ln = int.from_bytes(prefix, 'big')
        if ln > max_len:
            return records, 'toolong', (prefix,)
        if ln == 0:
            return records, 'end', ()
        body = stream[pos + 4:pos + 4 + ln]
        if len(body) < ln:
            return records, 'short', (prefix, body)
        records.append(body)
        pos += 4 + ln
