"""Deterministic step budget: the hang oracle.

sys.monitoring (Python 3.12) LINE events are enabled only on the code objects of cardutil.iso8583 and
cardutil.mciipm; while a budget is active the callback counts executed lines and raises StepBudgetExceeded once the
count passes the limit. A count is a function of the input and the code, not of the machine's speed."""
import contextlib
import os
import signal
import sys
import threading
import types

from vlib.repo import HarnessError


class StepBudgetExceeded(BaseException):
    """BaseException on purpose: no 'except Exception' in the code under test or in a harness may swallow it."""


class WallClockExceeded(BaseException):
    """Second line of defence for loops that run in C code (the DE43 regular expression): a generous wall-clock limit.
    It is never reported on its own: the caller confirms it by re-running the same input alone in a fresh process."""


WALL_LIMIT = float(os.environ.get('VERIF_WALL_LIMIT') or 10.0)


def _on_alarm(signum, frame):
    raise WallClockExceeded('wall clock')


_state = {'n': 0, 'limit': 0, 'installed': False, 'tool': None}


def _codes_of(obj, seen):
    if isinstance(obj, types.CodeType):
        if obj in seen:
            return
        seen.add(obj)
        for c in obj.co_consts:
            _codes_of(c, seen)
    elif isinstance(obj, (types.FunctionType,)):
        _codes_of(obj.__code__, seen)
    elif isinstance(obj, (staticmethod, classmethod)):
        _codes_of(obj.__func__, seen)
    elif isinstance(obj, property):
        for f in (obj.fget, obj.fset, obj.fdel):
            if f:
                _codes_of(f, seen)
    elif isinstance(obj, type):
        for v in vars(obj).values():
            _codes_of(v, seen)


def install():
    if _state['installed']:
        return
    if not hasattr(sys, 'monitoring'):
        raise HarnessError('sys.monitoring unavailable (needs Python 3.12)')
    import cardutil.iso8583
    import cardutil.mciipm
    import cardutil.BitArray
    mon = sys.monitoring
    tool = None
    for tid in (mon.PROFILER_ID, mon.OPTIMIZER_ID, 3, 4):
        try:
            mon.use_tool_id(tid, 'cardutil-verif-steps')
            tool = tid
            break
        except ValueError:
            continue
    if tool is None:
        raise HarnessError('no free sys.monitoring tool id')
    seen = set()
    for mod in (cardutil.iso8583, cardutil.mciipm, cardutil.BitArray):
        for v in vars(mod).values():
            if getattr(v, '__module__', None) == mod.__name__:
                _codes_of(v, seen)

    def on_line(code, line):
        if _state['limit']:
            _state['n'] += 1
            if _state['n'] > _state['limit']:
                _state['limit'] = 0
                raise StepBudgetExceeded(f'{code.co_name}:{line}')

    mon.register_callback(tool, mon.events.LINE, on_line)
    for code in seen:
        mon.set_local_events(tool, code, mon.events.LINE)
    _state['installed'] = True
    _state['tool'] = tool
    _state['codes'] = len(seen)


@contextlib.contextmanager
def budget(limit, wall=None):
    install()
    _state['n'] = 0
    _state['limit'] = limit
    timed = threading.current_thread() is threading.main_thread()
    if timed:
        old = signal.signal(signal.SIGALRM, _on_alarm)
        signal.setitimer(signal.ITIMER_REAL, wall or WALL_LIMIT)
    try:
        yield _state
    finally:
        _state['limit'] = 0
        if timed:
            signal.setitimer(signal.ITIMER_REAL, 0)
            signal.signal(signal.SIGALRM, old)


def limit_for(nbytes):
    return 5000 + 50 * nbytes


def used():
    return _state['n']
