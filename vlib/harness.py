"""Shared plumbing: counters, known findings, violation collection, Hypothesis driving, sharding, evidence.

Conventions
-----------
* A property module exposes ``LEVEL``, ``RULE``, ``ASSUMPTIONS``, ``tasks(tier, seed)`` returning a list of
  ``(function_name, kwargs)`` and ``replay(case)`` returning ``None`` or ``(signature, message)``.
* Each task function takes ``(ctx, **kwargs)``; tasks run in worker processes, their contexts are merged.
* Inside a Hypothesis body a disagreement is reported with ``ctx.fail`` (raises, so Hypothesis shrinks);
  enumeration code uses ``ctx.report`` (collects, keeps the smallest case per signature).
* A signature listed as open in known_findings.json is counted and stepped over; it never becomes a VIOLATION.
"""
import collections
import datetime
import decimal
import hashlib
import json
import logging
import multiprocessing
import os
import sys
import time
import traceback

from vlib.repo import HarnessError

VERIF_DIR = os.path.dirname(os.path.dirname(os.path.abspath(__file__)))
NPROC = int(os.environ.get('VERIF_NPROC', '16'))
# the self-test redirects evidence/replays of mutant runs so that they never overwrite the real ones
OUT_DIR = os.environ.get('VERIF_OUT') or VERIF_DIR


# ----------------------------------------------------------------------------- serialisation

def enc(obj):
    """JSON-able rendering of a case (bytes, datetimes, decimals, tuples, sets survive a round trip)."""
    if isinstance(obj, (bytes, bytearray)):
        return {'__b__': bytes(obj).hex()}
    if isinstance(obj, datetime.datetime):
        return {'__dt__': obj.isoformat()}
    if isinstance(obj, decimal.Decimal):
        return {'__dec__': str(obj)}
    if isinstance(obj, dict):
        if all(isinstance(k, str) for k in obj):
            return {k: enc(v) for k, v in obj.items()}
        return {'__items__': [[enc(k), enc(v)] for k, v in obj.items()]}
    if isinstance(obj, tuple):
        return {'__t__': [enc(v) for v in obj]}
    if isinstance(obj, (set, frozenset)):
        return {'__set__': [enc(v) for v in sorted(obj, key=repr)]}
    if isinstance(obj, list):
        return [enc(v) for v in obj]
    if obj is None or isinstance(obj, (str, int, float, bool)):
        return obj
    return {'__repr__': repr(obj)}


def dec(obj):
    if isinstance(obj, list):
        return [dec(v) for v in obj]
    if isinstance(obj, dict):
        if '__b__' in obj and len(obj) == 1:
            return bytes.fromhex(obj['__b__'])
        if '__dt__' in obj and len(obj) == 1:
            return datetime.datetime.fromisoformat(obj['__dt__'])
        if '__dec__' in obj and len(obj) == 1:
            return decimal.Decimal(obj['__dec__'])
        if '__t__' in obj and len(obj) == 1:
            return tuple(dec(v) for v in obj['__t__'])
        if '__set__' in obj and len(obj) == 1:
            return set(dec(v) for v in obj['__set__'])
        if '__items__' in obj and len(obj) == 1:
            return {dec(k): dec(v) for k, v in obj['__items__']}
        return {k: dec(v) for k, v in obj.items()}
    return obj


def digest(obj):
    if isinstance(obj, bytes):
        data = obj
    elif isinstance(obj, str):
        data = obj.encode('utf8', 'surrogatepass')
    else:
        data = json.dumps(enc(obj), sort_keys=True, default=repr).encode('utf8', 'surrogatepass')
    return hashlib.blake2b(data, digest_size=8).digest()


def brief(obj, limit=400):
    """Compact rendering of a case for evidence samples."""
    s = json.dumps(enc(obj), sort_keys=True, default=repr)
    if len(s) > limit:
        return s[:limit] + '...(%d chars)' % len(s)
    return json.loads(s)


def derive_seed(*parts):
    h = hashlib.blake2b(repr(parts).encode(), digest_size=8).digest()
    return int.from_bytes(h, 'big') & 0x7FFFFFFFFFFFFFFF


# ----------------------------------------------------------------------------- known findings

_FINDINGS = None


def findings():
    global _FINDINGS
    if _FINDINGS is None:
        path = os.path.join(VERIF_DIR, 'known_findings.json')
        with open(path) as f:
            _FINDINGS = json.load(f)
    return _FINDINGS


def open_finding(prop, signature):
    for item in findings().get('open', []):
        if item['property'] == prop and item['signature'] == signature:
            return item
    return None


# ----------------------------------------------------------------------------- context

class Violation(Exception):
    """Raised inside a Hypothesis body; carries nothing, the context remembers the case."""


class StopShrink(KeyboardInterrupt):
    """Raised once the shrinking budget of a failing example is used up; the smallest failing case seen so far is kept."""


SHRINK_BUDGET = {'quick': (400, 25.0), 'thorough': (4000, 240.0)}   # (evaluations, seconds) after the first failure


HANG_CAP = 30


class AbortRun(KeyboardInterrupt):
    """Raised after a confirmed wall-clock hang: every further evaluation (and above all shrinking) would cost the full
    time limit again, so the task records the case as it is and stops. Hypothesis re-raises KeyboardInterrupt at once."""


class Ctx:
    SAMPLE_CAP = 6

    def __init__(self, prop, tier, seed, task='main'):
        self.prop = prop
        self.tier = tier
        self.seed = seed
        self.task = task
        self.evaluations = 0
        self.nontrivial = set()
        self.nontrivial_by_construction = 0
        self.labels = collections.Counter()
        self.samples = []
        self.exhaustive = []
        self.violations = {}
        self.known_hits = collections.Counter()
        self.excluded = set()
        self.notes = []
        self.floors = []
        self._last = None
        self._machine_budget = None

    # ---- counting
    def case(self, key=None, nontrivial=False, labels=()):
        self.evaluations += 1
        if nontrivial and key is not None:
            self.nontrivial.add(key if isinstance(key, bytes) and len(key) == 8 else digest(key))
        for lab in labels:
            self.labels[lab] += 1

    def bulk(self, n, nontrivial_distinct=0, label=None):
        """n enumerated cases, of which nontrivial_distinct are non-trivial and distinct by construction
        (they are different index tuples of one enumeration)."""
        self.evaluations += n
        self.nontrivial_by_construction += nontrivial_distinct
        if label:
            self.labels[label] += n

    def label(self, lab, n=1):
        self.labels[lab] += n

    def sample(self, obj, force=False):
        if force or len(self.samples) < self.SAMPLE_CAP:
            self.samples.append(brief(obj))

    def enumerated(self, text):
        self.exhaustive.append(text)

    def note(self, text):
        if text not in self.notes:
            self.notes.append(text)

    def floor(self, label, minimum_fraction, of_label):
        """declare: labels[label] / labels[of_label] must be >= minimum_fraction (checked after merge)."""
        self.floors.append((label, minimum_fraction, of_label))

    # ---- disagreement handling
    def _known(self, signature):
        item = open_finding(self.prop, signature)
        if item is not None:
            self.known_hits[signature] += 1
            return True
        return False

    def report(self, signature, case, message):
        """collect (enumeration style); returns True if it counts as a new violation"""
        if self._known(signature):
            return False
        if 'non-termination' in signature:
            # every non-terminating input costs its full step budget (much more when the library logs inside the loop):
            # once a task has met HANG_CAP of them the verdict is in, and the task stops instead of paying for thousands
            self.hangs = getattr(self, 'hangs', 0) + 1
            if self.hangs > HANG_CAP:
                self._record(signature, case, message)
                self.note(f'task stopped after {HANG_CAP} non-terminating inputs')
                raise AbortRun(signature)
        return self._record(signature, case, message)

    def _record(self, signature, case, message):
        e = enc(case)
        size = len(json.dumps(e, default=repr))
        cur = self.violations.get(signature)
        if cur is None or size < cur['size']:
            self.violations[signature] = {'signature': signature, 'case': e, 'message': str(message)[:2000],
                                          'size': size, 'task': self.task, 'env': dict(getattr(self, 'env', None) or {})}
        return True

    def fail(self, signature, case, message):
        """Hypothesis style: raise so that the library shrinks towards a minimal case of this signature."""
        if self._known(signature):
            return
        if self._machine_budget is not None:
            # state machines: minimisation is bounded here (plain @given tests are bounded inside drive())
            st_ = self._machine_budget
            if st_['t0'] is None:
                st_['t0'] = time.time()
            st_['calls'] += 1
            if st_['calls'] > st_['max_calls'] or time.time() - st_['t0'] > st_['max_s']:
                self.report(signature, case, str(message) + ' [minimisation stopped at its budget]')
                raise AbortRun(signature)
        if signature.endswith('@wall-clock'):
            self.report(signature, case, message)
            raise AbortRun(signature)
        if signature in self.excluded:
            self.labels['stepped-over:' + signature] += 1
            if 'non-termination' in signature:
                self.hangs = getattr(self, 'hangs', 0) + 1
                if self.hangs > HANG_CAP:
                    self.note(f'task stopped after {HANG_CAP} non-terminating inputs')
                    raise AbortRun(signature)
            return
        self._last = (signature, case, message)
        raise Violation(signature)

    # ---- merge / export
    def export(self):
        return {
            'evaluations': self.evaluations, 'nontrivial': self.nontrivial,
            'nbc': self.nontrivial_by_construction, 'labels': dict(self.labels), 'samples': self.samples,
            'exhaustive': self.exhaustive, 'violations': self.violations, 'known_hits': dict(self.known_hits),
            'notes': self.notes, 'floors': self.floors, 'task': self.task,
        }

    def merge(self, d):
        self.evaluations += d['evaluations']
        self.nontrivial |= d['nontrivial']
        self.nontrivial_by_construction += d['nbc']
        self.labels.update(d['labels'])
        for s in d['samples']:
            if len(self.samples) < 12:
                self.samples.append(s)
        for e in d['exhaustive']:
            if e not in self.exhaustive:
                self.exhaustive.append(e)
        for sig, v in d['violations'].items():
            cur = self.violations.get(sig)
            if cur is None or v['size'] < cur['size']:
                self.violations[sig] = v
        self.known_hits.update(d['known_hits'])
        for n in d['notes']:
            self.note(n)
        for f in d['floors']:
            if tuple(f) not in [tuple(x) for x in self.floors]:
                self.floors.append(tuple(f))


# ----------------------------------------------------------------------------- Hypothesis driving

def hyp_settings(max_examples, stateful_step_count=None, shrink=True):
    from hypothesis import settings, HealthCheck, Phase, Verbosity
    phases = [Phase.explicit, Phase.generate, Phase.target]
    if shrink:
        phases.append(Phase.shrink)
    kw = dict(max_examples=max_examples, deadline=None, database=None, report_multiple_bugs=False,
              derandomize=False, phases=phases, verbosity=Verbosity.quiet, print_blob=False,
              suppress_health_check=[HealthCheck.too_slow, HealthCheck.data_too_large,
                                     HealthCheck.large_base_example])
    if stateful_step_count is not None:
        kw['stateful_step_count'] = stateful_step_count
    return settings(**kw)


def drive(ctx, strategy, body, max_examples, salt='', rounds=5, shrink=True):
    """Run ``body(value)`` over ``strategy``; on a violation shrink, record, step over that signature, go on.

    Every run is a pure function of (VERIF_SEED, property, task, salt, round)."""
    import hypothesis
    from hypothesis import given, seed as hseed
    from hypothesis import errors as herrors

    for rnd in range(rounds):
        ctx._last = None

        budget_calls, budget_s = SHRINK_BUDGET.get(ctx.tier, SHRINK_BUDGET['quick'])
        shrink_state = {'calls': 0, 't0': None}

        @hseed(derive_seed(ctx.seed, ctx.prop, ctx.task, salt, rnd))
        @hyp_settings(max_examples, shrink=shrink)
        @given(strategy)
        def test(value):
            if shrink_state['t0'] is not None:
                # a failure has been seen: everything from here on is minimisation, which only affects how small the
                # saved case is, never the verdict - so it is bounded
                shrink_state['calls'] += 1
                if shrink_state['calls'] > budget_calls or time.time() - shrink_state['t0'] > budget_s:
                    raise StopShrink()
            try:
                body(value)
            except Violation:
                if shrink_state['t0'] is None:
                    shrink_state['t0'] = time.time()
                raise

        try:
            test()
        except StopShrink:
            sig, case, msg = ctx._last
            ctx.report(sig, case, msg + ' [minimisation stopped at its budget]')
            ctx.excluded.add(sig)
            continue
        except AbortRun:
            ctx.note('task stopped after a confirmed wall-clock hang or too many non-terminating inputs (every further one costs its full budget)')
            break
        except Violation:
            sig, case, msg = ctx._last
            ctx.report(sig, case, msg)
            ctx.excluded.add(sig)
            continue
        except (herrors.FailedHealthCheck, herrors.Unsatisfiable) as ex:
            raise HarnessError(f'{ctx.prop}/{ctx.task}/{salt}: generator unhealthy: {ex}')
        except herrors.Flaky as ex:
            if _history_dependent(ctx):
                continue
            # an oracle that is not a function of its input is a harness defect, not a finding
            raise HarnessError(f'{ctx.prop}/{ctx.task}/{salt}: flaky: {ex}')
        except Exception as ex:  # noqa
            if _shrinker_crashed(ctx, ex):
                continue
            raise
        break


def _shrinker_crashed(ctx, ex):
    """Hypothesis 6.168's shrinker can fail internally (seen: ValueError in lower_duplicated_characters) while minimising
    a failing example. The failure itself was observed by the oracle before that, so the last recorded failing case is
    reported un-minimised instead of losing the finding to a harness error."""
    tb = ex.__traceback__
    inner = None
    while tb is not None:
        inner = tb.tb_frame.f_code.co_filename
        tb = tb.tb_next
    if ctx._last is None or not inner or (os.sep + 'hypothesis' + os.sep) not in inner:
        return False
    sig, case, msg = ctx._last
    ctx.report(sig, case, msg + ' [not minimised: the shrinker failed internally]')
    ctx.excluded.add(sig)
    ctx.note(f'Hypothesis shrinker raised {type(ex).__name__} internally; the case was kept as last seen')
    ctx._last = None
    return True


def _history_dependent(ctx):
    """Hypothesis calls a failure flaky when the same example passes on re-execution. The oracles here are pure functions
    of the case, so if a disagreement was recorded the code under test answered differently for the same input depending on
    what was called before it in this process - which is itself a violation of a for-every-input property. The recorded
    case is reported (marked history-dependent: it need not reproduce when replayed alone)."""
    if ctx._last is None:
        return False
    sig, case, msg = ctx._last
    ctx.report(sig + ':history-dependent', case, msg + ' [the same input passed when re-executed: the outcome depends on earlier calls in '
               'the same process, so the saved case may not reproduce when replayed alone]')
    ctx.excluded.add(sig)
    ctx._last = None
    return True


def drive_machine(ctx, machine_factory, max_examples, steps, salt='', rounds=4, shrink=True):
    """Same for a RuleBasedStateMachine class (factory returns a fresh class bound to ctx)."""
    from hypothesis import seed as hseed
    from hypothesis import errors as herrors
    from hypothesis.stateful import run_state_machine_as_test

    for rnd in range(rounds):
        ctx._last = None
        calls, secs = SHRINK_BUDGET.get(ctx.tier, SHRINK_BUDGET['quick'])
        ctx._machine_budget = {'t0': None, 'calls': 0, 'max_calls': calls // 4, 'max_s': secs}
        machine = hseed(derive_seed(ctx.seed, ctx.prop, ctx.task, salt, rnd))(machine_factory())
        try:
            run_state_machine_as_test(machine, settings=hyp_settings(max_examples, steps, shrink=shrink))
        except AbortRun as ex:
            ctx.excluded.add(str(ex))
            ctx._machine_budget = None
            continue
        except Violation:
            sig, case, msg = ctx._last
            ctx.report(sig, case, msg)
            ctx.excluded.add(sig)
            continue
        except (herrors.FailedHealthCheck, herrors.Unsatisfiable) as ex:
            raise HarnessError(f'{ctx.prop}/{ctx.task}/{salt}: generator unhealthy: {ex}')
        except herrors.Flaky as ex:
            if _history_dependent(ctx):
                continue
            raise HarnessError(f'{ctx.prop}/{ctx.task}/{salt}: flaky: {ex}')
        except Exception as ex:  # noqa
            if _shrinker_crashed(ctx, ex):
                continue
            raise
        finally:
            ctx._machine_budget = None
        break


# ----------------------------------------------------------------------------- task execution

class _FormatAndDrop(logging.Handler):
    """formats every record (so that lazily formatted arguments are evaluated, as a real handler would) and drops it"""

    def emit(self, record):
        try:
            self.format(record)
        except Exception:  # noqa - a logging failure is not the caller's exception (logging prints it to stderr at most)
            pass


_SINK = _FormatAndDrop()


def apply_env(env):
    """the environment a case ran under. debug_logging: the application has switched the library's loggers to DEBUG
    (as the --debug options and any logging.basicConfig(level=DEBUG) do); otherwise logging is off entirely."""
    # no_dateutil: the optional python-dateutil package is not installed (it is only in the "test" extra; the documented
    # fallback is datetime.fromisoformat) - simulated by blocking the import, which the library performs at call time
    for name in ('dateutil', 'dateutil.parser'):
        if env and env.get('no_dateutil'):
            sys.modules[name] = None
        elif name in sys.modules and sys.modules[name] is None:
            del sys.modules[name]
    lg = logging.getLogger('cardutil')
    if env and env.get('debug_logging'):
        logging.disable(logging.NOTSET)
        lg.setLevel(logging.DEBUG)
        lg.propagate = False
        if _SINK not in lg.handlers:
            lg.addHandler(_SINK)
    else:
        logging.disable(logging.CRITICAL)
        lg.setLevel(logging.NOTSET)
        lg.propagate = True
        if _SINK in lg.handlers:
            lg.removeHandler(_SINK)


def task_env(idx):
    mode = os.environ.get('VERIF_DEBUG_LOGGING', 'default')
    on = mode == 'all' or (mode == 'default' and idx % 4 == 3)
    env = {'debug_logging': True} if on else {}
    if os.environ.get('VERIF_NO_DATEUTIL', 'default') == 'all' or (os.environ.get('VERIF_NO_DATEUTIL', 'default') == 'default' and idx % 4 == 1):
        env['no_dateutil'] = True
    return env


def _run_task(args):
    modname, prop, tier, seed, idx, fname, kwargs = args
    import importlib
    try:
        mod = importlib.import_module(modname)
        ctx = Ctx(prop, tier, seed, task=f'{fname}#{idx}')
        ctx.env = task_env(idx)
        apply_env(ctx.env)
        ctx.labels['tasks-with-debug-logging' if ctx.env.get('debug_logging') else 'tasks-with-logging-off'] += 1
        ctx.labels['tasks-without-dateutil' if ctx.env.get('no_dateutil') else 'tasks-with-dateutil'] += 1
        try:
            getattr(mod, fname)(ctx, **kwargs)
        except AbortRun:
            pass            # the task gave up early (hangs); what it found so far stands
        finally:
            apply_env(None)
        return ('ok', ctx.export())
    except HarnessError as ex:
        return ('harness', f'{fname}#{idx}: {ex}')
    except BaseException:  # noqa - report everything from the worker as a harness error
        return ('harness', f'{fname}#{idx}: ' + traceback.format_exc())


def run_property(mod, prop, tier, seed):
    t0 = time.time()
    tasks = mod.tasks(tier, seed)
    args = [(mod.__name__, prop, tier, seed, i, fname, kwargs) for i, (fname, kwargs) in enumerate(tasks)]
    total = Ctx(prop, tier, seed)
    errors = []
    nproc = min(NPROC, len(args))
    if nproc <= 1:
        results = [_run_task(a) for a in args]
    else:
        mp = multiprocessing.get_context('fork')
        # backstop: a check that cannot finish (e.g. the code under test hangs inside C code where no step is counted)
        # is inconclusive - exit 2 - never a verdict
        limit = float(os.environ.get('VERIF_TIMEOUT') or (2400 if tier == 'quick' else 6 * 3600))
        with mp.Pool(nproc, maxtasksperchild=1) as pool:
            pending = pool.map_async(_run_task, args, chunksize=1)
            try:
                results = pending.get(timeout=limit)
            except multiprocessing.TimeoutError:
                pool.terminate()
                results = [('harness', f'wall-clock backstop of {limit:.0f}s reached: run is inconclusive')]
    for status, payload in results:
        if status == 'ok':
            total.merge(payload)
        else:
            errors.append(payload)
    wall = time.time() - t0
    return total, errors, wall


def check_floors(ctx):
    problems = []
    for label, frac, of in ctx.floors:
        denom = ctx.labels.get(of, 0) if isinstance(of, str) else of
        have = ctx.labels.get(label, 0)
        if isinstance(frac, int) and not isinstance(frac, bool) and of is None:
            if have < frac:
                problems.append(f'label {label!r}: {have} < required count {frac}')
            continue
        if denom == 0 or have / denom < frac:
            problems.append(f'label {label!r}: {have}/{denom} below floor {frac}')
    return problems


def write_evidence(mod, ctx, wall, n_violations):
    distinct = len(ctx.nontrivial) + ctx.nontrivial_by_construction
    cov = {
        'evaluations': ctx.evaluations,
        'distinct_nontrivial': distinct,
        'distinct_nontrivial_hashed': len(ctx.nontrivial),
        'distinct_nontrivial_by_enumeration_index': ctx.nontrivial_by_construction,
        'rule': mod.RULE,
        'samples': ctx.samples or ['(no sample recorded)'],
        'labels': dict(sorted(ctx.labels.items())),
        'exhaustive_subspaces': ctx.exhaustive,
        'exhaustive': bool(getattr(mod, 'EXHAUSTIVE', False)) and bool(ctx.exhaustive),
        'known_findings_hit': dict(ctx.known_hits),
        'notes': ctx.notes,
        'technique': getattr(mod, 'TECHNIQUE', ''),
    }
    ev = {
        'property_id': ctx.prop, 'tier': ctx.tier, 'seed': ctx.seed, 'level': mod.LEVEL,
        'coverage': cov, 'assumptions': list(mod.ASSUMPTIONS), 'wall_s': round(wall, 2),
        'violations': n_violations,
    }
    os.makedirs(os.path.join(OUT_DIR, 'evidence'), exist_ok=True)
    path = os.path.join(OUT_DIR, 'evidence', f'{ctx.prop}.json')
    tmp = path + '.tmp'
    with open(tmp, 'w') as f:
        json.dump(ev, f, indent=1, sort_keys=True, default=repr)
        f.write('\n')
    os.replace(tmp, path)
    return path


def write_replay(prop, v):
    os.makedirs(os.path.join(OUT_DIR, 'replays'), exist_ok=True)
    body = {'property': prop, 'signature': v['signature'], 'message': v['message'], 'case': v['case'],
            'task': v.get('task')}
    if v.get('env'):
        body['env'] = v['env']
    name = f"{prop}-{hashlib.blake2b(json.dumps(body, sort_keys=True, default=repr).encode(), digest_size=6).hexdigest()}.json"
    path = os.path.join(OUT_DIR, 'replays', name)
    with open(path, 'w') as f:
        json.dump(body, f, indent=1, sort_keys=True, default=repr)
        f.write('\n')
    return path


def regress_cases(prop):
    d = os.path.join(VERIF_DIR, 'regress', prop)
    out = []
    if os.path.isdir(d):
        for name in sorted(os.listdir(d)):
            if name.endswith('.json'):
                with open(os.path.join(d, name)) as f:
                    out.append((os.path.join(d, name), json.load(f)))
    return out


# ----------------------------------------------------------------------------- exception bucketing

def where(ex):
    """innermost frame of the traceback that lies in the cardutil package: 'module.function'"""
    tb = ex.__traceback__
    best = None
    while tb is not None:
        fn = tb.tb_frame.f_code.co_filename
        if (os.sep + 'cardutil' + os.sep) in fn:
            best = os.path.splitext(os.path.basename(fn))[0] + '.' + tb.tb_frame.f_code.co_name
        tb = tb.tb_next
    return best or 'outside-cardutil'


def exc_sig(prefix, ex):
    return f'{prefix}:{type(ex).__name__}@{where(ex)}'
