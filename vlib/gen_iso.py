"""Hypothesis strategies for ISO8583 configurations and messages (shared by C01, C02, C06, C07, C08, C10, C12, C16, C19).

Soundness first: only inputs the library documents or is observed (through its callers and tests) to accept.
* field_length is always present; variable fields carry 0.
* at most one ICC and one DE43 element per configuration (their derived keys would otherwise collide).
* text only from the codec's repertoire; values always fit their field.
* PDS keys only when the configured carriers can hold them (sized with the reference packer).
"""
import datetime
import decimal

from hypothesis import strategies as st

from vlib import codecs_, refcodec
from vlib.strat import uniform

EDGE_BITS = [2, 3, 8, 9, 16, 17, 32, 33, 48, 55, 63, 64, 65, 66, 72, 73, 96, 97, 120, 126, 127]
DATE_FORMATS = {'%y%m%d': 6, '%y%m%d%H%M%S': 12, '%Y%m%d': 8, '%Y%m%d%H%M%S': 14, '%y%m': 4, '%m%d%y': 6}
PACKAGED_DE43 = (r"(?P<DE43_NAME>.+?) *\\(?P<DE43_ADDRESS>.+?) *\\(?P<DE43_SUBURB>.+?) *\\"
                 r"(?P<DE43_POSTCODE>.{10})(?P<DE43_STATE>.{3})(?P<DE43_COUNTRY>\S{3})$")
# the configured expression is applied from the start of the field (re.match); it need not describe the whole field
DE43_POOL = [PACKAGED_DE43, r"(?P<DE43_HEAD>.{3})(?P<DE43_REST>.*)$", r"(?P<DE43_WORD>[A-Z]+)", None,
             r"(?P<DE43_NAME>[^\\]+?) *\\", r"(?P<DE43_LEAD>.{5})(?P<DE43_NEXT>.{3})", PACKAGED_DE43]

KINDS = ['fixed_text', 'fixed_text', 'llvar_text', 'llvar_text', 'lllvar_text', 'lllvar_text', 'fixed_int', 'fixed_long',
         'llvar_int', 'fixed_decimal', 'fixed_datetime', 'pan', 'pan_prefix', 'pds', 'pds', 'icc', 'de43']


def packaged_config():
    from cardutil.config import config
    return {k: dict(v) for k, v in config['bit_config'].items() if k != '1'}


def full_config():
    """synthetic configuration with all 126 bits (used by the exhaustive bit sweeps)"""
    cfg = {}
    for b in range(2, 128):
        r = b % 6
        if r == 0:
            cfg[str(b)] = {'field_type': 'FIXED', 'field_length': 1 + b % 7}
        elif r == 1:
            cfg[str(b)] = {'field_type': 'LLVAR', 'field_length': 0}
        elif r == 2:
            cfg[str(b)] = {'field_type': 'LLLVAR', 'field_length': 0}
        elif r == 3:
            cfg[str(b)] = {'field_type': 'FIXED', 'field_length': 2 + b % 9, 'field_python_type': 'int'}
        elif r == 4:
            cfg[str(b)] = {'field_type': 'FIXED', 'field_length': 6, 'field_python_type': 'datetime', 'field_date_format': '%y%m%d'}
        else:
            cfg[str(b)] = {'field_type': 'FIXED', 'field_length': 3}
    return cfg


def field_config(kind, draw):
    if kind in ('fixed_text', 'llvar_text', 'lllvar_text'):
        if kind == 'fixed_text':
            c = {'field_type': 'FIXED', 'field_length': draw(st.one_of(uniform(1, 12), uniform(1, 40)))}
        else:
            # the length of a variable field is taken from its prefix; configurations in the wild carry 0 or a nominal maximum
            c = {'field_type': 'LLVAR' if kind == 'llvar_text' else 'LLLVAR', 'field_length': draw(st.sampled_from([0, 0, 11, 23, 255]))}
        if draw(st.sampled_from([False, False, True])):
            c['field_python_type'] = 'string'   # the documented explicit spelling of the default
        return c
    if kind in ('fixed_int', 'fixed_long'):
        return {'field_type': 'FIXED', 'field_length': draw(uniform(1, 18)),
                'field_python_type': 'int' if kind == 'fixed_int' else 'long'}
    if kind == 'llvar_int':
        return {'field_type': 'LLVAR', 'field_length': 0, 'field_python_type': 'int'}
    if kind == 'fixed_decimal':
        return {'field_type': 'FIXED', 'field_length': draw(uniform(3, 20)), 'field_python_type': 'decimal'}
    if kind == 'fixed_datetime':
        fmt = draw(st.sampled_from(sorted(DATE_FORMATS) + ['default']))
        if fmt == 'default':
            # field_date_format is optional: "Default format is %y%m%d" (configuration documentation)
            return {'field_type': 'FIXED', 'field_length': 6, 'field_python_type': 'datetime'}
        return {'field_type': 'FIXED', 'field_length': DATE_FORMATS[fmt], 'field_python_type': 'datetime',
                'field_date_format': fmt}
    if kind in ('pan', 'pan_prefix'):
        c = {'field_type': draw(st.sampled_from(['LLVAR', 'LLLVAR'])), 'field_length': draw(st.sampled_from([0, 0, 19])),
             'field_processor': 'PAN' if kind == 'pan' else 'PAN-PREFIX'}
        if draw(st.booleans()):
            c['field_python_type'] = 'string'
        if draw(st.booleans()):
            c['field_processor_config'] = ''
        return c
    if kind == 'pds':
        return {'field_type': 'LLLVAR', 'field_length': 0, 'field_processor': 'PDS'}
    if kind == 'icc':
        return {'field_type': draw(st.sampled_from(['LLVAR', 'LLLVAR'])), 'field_length': 255, 'field_processor': 'ICC'}
    if kind == 'de43':
        c = {'field_type': 'LLVAR', 'field_length': 0, 'field_processor': 'DE43'}
        rx = draw(st.sampled_from(DE43_POOL))
        if rx:
            c['field_processor_config'] = rx
        return c
    raise ValueError(kind)


@st.composite
def configs(draw, max_bits=24, kinds=KINDS):
    bits = draw(st.lists(st.one_of(st.sampled_from(EDGE_BITS), uniform(2, 127)), min_size=1, max_size=max_bits,
                         unique=True))
    cfg = {}
    have_icc = have_43 = False
    for b in sorted(bits):
        kind = draw(st.sampled_from(kinds))
        if kind == 'icc':
            if have_icc:
                kind = 'lllvar_text'
            have_icc = True
        if kind == 'de43':
            if have_43:
                kind = 'llvar_text'
            have_43 = True
        cfg[str(b)] = field_config(kind, draw)
    # a configuration is a mapping: the order in which it lists the elements carries no meaning (a JSON file written
    # with sorted keys lists "123" before "48")
    order = draw(st.sampled_from(['ascending', 'ascending', 'as-strings', 'descending', 'shuffled']))
    if order == 'as-strings':
        cfg = {k: cfg[k] for k in sorted(cfg)}
    elif order == 'descending':
        cfg = {k: cfg[k] for k in reversed(list(cfg))}
    elif order == 'shuffled':
        cfg = {k: cfg[k] for k in draw(st.permutations(list(cfg)))}
    if draw(st.booleans()):
        cfg = from_json(cfg)
    return cfg


def from_json(cfg):
    """the same configuration as it arrives from a JSON file (--config-file, CARDUTIL_CONFIG, json.loads): equal values,
    but every string is a fresh object rather than an interned source literal"""
    import json
    return json.loads(json.dumps(cfg))


# ------------------------------------------------------------------------------------------------ values

def alphabets(codec):
    rep = codecs_.repertoire(codec)
    base = [rep, rep, '0123456789', ' ', ' ab', '\\ ab', '0123456789 ', 'ABCDEFGHIJKLMNOPQRSTUVWXYZ']
    extra = ''.join(c for c in '\x00@\\,"\'' if c in rep)
    if extra:
        base.append(extra)
    return base


@st.composite
def tiled_text(draw, codec, n, alphabet=None):
    """text of exactly n characters from the codec repertoire: a short drawn seed, tiled"""
    if n == 0:
        return ''
    alpha = alphabet or draw(st.sampled_from(alphabets(codec)))
    seed = draw(st.text(alphabet=alpha, min_size=1, max_size=min(n, 14)))
    return (seed * (n // len(seed) + 1))[:n]


def var_length(maxlen, lo=1):
    if maxlen >= 999:
        edges = [1, 2, 9, 10, 11, 99, 100, 101, 255, 256, 998, 999]
    elif maxlen >= 99:
        edges = [1, 2, 9, 10, 11, 98, 99]
    else:
        edges = [1, maxlen]
    edges = [e for e in edges if lo <= e <= maxlen] or [lo]
    return st.one_of(st.sampled_from(edges), uniform(lo, maxlen), uniform(lo, min(maxlen, max(lo, 24))))


def project_datetime(dt, fmt):
    """what a field of this format can represent of dt (independent of strftime/strptime)"""
    kw = dict(year=1900, month=1, day=1, hour=0, minute=0, second=0)
    if '%y' in fmt or '%Y' in fmt:
        kw['year'] = dt.year
    if '%m' in fmt:
        kw['month'] = dt.month
    if '%d' in fmt:
        kw['day'] = dt.day
    if '%H' in fmt:
        kw['hour'] = dt.hour
    if '%M' in fmt:
        kw['minute'] = dt.minute
    if '%S' in fmt:
        kw['second'] = dt.second
    try:
        return datetime.datetime(**kw)
    except ValueError:  # e.g. day 31 with defaulted month
        kw['day'] = min(kw['day'], 28)
        return datetime.datetime(**kw)


EDGE_DATES = [datetime.datetime(1969, 1, 1), datetime.datetime(1999, 12, 31, 23, 59, 59), datetime.datetime(2000, 1, 1),
              datetime.datetime(2000, 2, 29, 12, 0, 1), datetime.datetime(2049, 12, 31), datetime.datetime(2050, 1, 1),
              datetime.datetime(2068, 12, 31, 23, 59, 59), datetime.datetime(2024, 2, 29), datetime.datetime(2038, 1, 19, 3, 14, 8)]


@st.composite
def datetimes_for(draw, fmt):
    if '%Y' in fmt:
        dt = draw(st.one_of(st.sampled_from(EDGE_DATES + [datetime.datetime(1000, 1, 1), datetime.datetime(9999, 12, 31, 23, 59, 59)]),
                            st.datetimes(min_value=datetime.datetime(1000, 1, 1), max_value=datetime.datetime(9999, 12, 31, 23, 59, 59))))
    else:
        dt = draw(st.one_of(st.sampled_from(EDGE_DATES),
                            st.datetimes(min_value=datetime.datetime(1969, 1, 1), max_value=datetime.datetime(2068, 12, 31, 23, 59, 59))))
    return project_datetime(dt.replace(microsecond=0), fmt)


@st.composite
def decimals_for(draw, width):
    form = draw(st.sampled_from(['plain', 'plain', 'plain', 'exponent', 'exponent', 'normalized', 'zero', 'tiny-zero']))
    if form == 'exponent' and width >= 4:
        # same number class, different representation: 12E+3 is the integer 12000 (str() of it is scientific)
        nd = draw(uniform(1, width - 3))
        ds = draw(st.text(alphabet='0123456789', min_size=nd, max_size=nd)).lstrip('0') or '0'
        return decimal.Decimal((0, tuple(int(c) for c in ds), draw(uniform(1, min(3, width - nd)))))
    if form == 'tiny-zero' and width >= 9:
        return decimal.Decimal('0E-7')          # str() is '0E-7'; as a fixed-point number it is 0.0000000
    frac = draw(uniform(0, min(6, width - 2)))
    intd = draw(uniform(1, width - frac - (1 if frac else 0)))
    digits = draw(st.text(alphabet='0123456789', min_size=intd + frac, max_size=intd + frac))
    if frac:
        text = digits[:intd] + '.' + digits[intd:]
    else:
        text = digits
    value = decimal.Decimal(text)
    if form == 'normalized':
        n = value.normalize()
        sign, ds, exp = n.as_tuple()
        if (exp >= 0 and len(ds) + exp <= width) or (exp < 0 and max(len(ds), -exp + 1) + 1 <= width):
            return n
    if form == 'zero' and frac:
        return decimal.Decimal('0.' + '0' * frac)
    return value


@st.composite
def tlv_data(draw, limit):
    items = draw(st.lists(st.tuples(
        st.one_of(uniform(1, 255).filter(lambda b: b not in (0x5f, 0x9f)).map(lambda b: bytes([b])),
                  st.tuples(st.sampled_from([0x5f, 0x9f]), uniform(0, 255)).map(bytes)),
        st.one_of(st.binary(min_size=0, max_size=24),
                  st.tuples(st.binary(min_size=1, max_size=4), st.sampled_from([0, 1, 127, 128, 200, 254, 255])).map(lambda t: (t[0] * 255)[:t[1]]))),
        min_size=1, max_size=8, unique_by=lambda t: t[0]))
    out = b''
    for tag, val in items:
        piece = tag + bytes([len(val)]) + val
        if len(out) + len(piece) > limit:
            break
        out += piece
    if not out:
        out = b'\x82\x00'[:limit]
    pad = draw(uniform(0, 3))
    if pad and len(out) + pad <= limit and draw(st.booleans()):
        out += b'\x00' * pad
    return out


@st.composite
def pds_sets(draw, codec, carriers, max_items=12, big=False, min_items=1):
    """dict PDSxxxx -> value sized (by the reference packer) to fit `carriers` carrier elements"""
    tags = draw(st.lists(st.one_of(st.sampled_from([0, 1, 23, 52, 122, 148, 158, 165, 9999]), uniform(0, 9999)),
                         min_size=min_items, max_size=max_items, unique=True))
    items = []
    for t in tags:
        if big:
            n = draw(st.one_of(st.sampled_from([0, 1, 7, 8, 100, 485, 490, 495, 985, 990, 991, 992]), uniform(0, 992)))
        else:
            n = draw(st.one_of(st.sampled_from([0, 1, 3, 7, 12, 25]), uniform(0, 60)))
        items.append((t, draw(tiled_text(codec, n))))
    while len(refcodec.pack_pds(items)) > carriers and items:
        items.pop()
    return {'PDS%04d' % t: v for t, v in items}


@st.composite
def de43_text(draw, codec, maxlen):
    rep = codecs_.repertoire(codec)
    if all(c in rep for c in 'ABC\\ 0123456789') and draw(st.booleans()):
        name = draw(st.text(alphabet='ABC xyz', min_size=1, max_size=12)).strip() or 'A'
        addr = draw(st.text(alphabet='12 MAIN st', min_size=1, max_size=10)).strip() or 'B'
        sub = draw(st.text(alphabet='SUBURBIA ', min_size=1, max_size=8)).strip() or 'C'
        # ten characters, blanks allowed anywhere (leading, inner, trailing): the layout only fixes the width
        post = draw(st.one_of(st.text(alphabet='0123456789', min_size=0, max_size=10).map(lambda t: t.ljust(10)),
                              st.text(alphabet='0123456789', min_size=1, max_size=9).map(lambda t: t.rjust(10)),
                              st.text(alphabet='012 AB', min_size=10, max_size=10)))
        text = f'{name}  \\{addr} \\{sub}\\{post}QLDAUS'
        if '\n' in rep and len(text) < maxlen and draw(st.sampled_from([False] * 5 + [True])):
            text += '\n'          # "$" in the packaged expression also matches before a final line feed
        if len(text) <= maxlen:
            return text
    n = draw(var_length(maxlen))
    return draw(tiled_text(codec, n))


@st.composite
def value_for(draw, cfg, codec, exact=True, typed_as_str=False):
    """a value that fits the field; exact=True: fixed text exactly the field width (round-trip domain)"""
    kind = cfg['field_type']
    ptype = cfg.get('field_python_type')
    proc = cfg.get('field_processor')
    maxlen = {'LLVAR': 99, 'LLLVAR': 999}.get(kind)
    if ptype in ('int', 'long'):
        w = cfg['field_length'] if kind == 'FIXED' else draw(uniform(1, 30))
        v = draw(st.one_of(st.sampled_from([0, 1, 10 ** w - 1, 10 ** (w - 1)]), st.integers(0, 10 ** w - 1)))
        if typed_as_str:
            # the number in another guise: a digit string (what the CSV tools pass), an integral float, a Decimal with
            # a zero fraction or an exponent - all of them whole numbers that fit the field
            kind = draw(st.sampled_from(['int', 'int', 'str', 'str', 'float', 'decimal-fraction', 'decimal-exponent'] if typed_as_str is True
                                        else ['int', 'int', 'int', 'float', 'decimal-fraction', 'decimal-exponent']))
            if kind == 'str':
                return str(v)
            if kind == 'float' and v < 2 ** 53:
                return float(v)
            if kind == 'decimal-fraction':
                return decimal.Decimal(str(v) + '.' + '0' * draw(uniform(1, 3)))
            if kind == 'decimal-exponent' and v and v % 10 == 0:
                return decimal.Decimal(v).normalize()
        return v
    if ptype == 'decimal':
        return draw(decimals_for(cfg['field_length']))
    if ptype == 'datetime':
        return draw(datetimes_for(cfg.get('field_date_format', '%y%m%d')))
    if proc == 'ICC':
        return draw(tlv_data(maxlen or cfg['field_length']))
    if proc in ('PAN', 'PAN-PREFIX'):
        n = draw(st.one_of(st.sampled_from([10, 11, 12, 13, 16, 19, 20, min(40, maxlen), maxlen]), uniform(10, min(40, maxlen))))
        return draw(st.text(alphabet='0123456789', min_size=n, max_size=n))
    if proc == 'DE43':
        return draw(de43_text(codec, maxlen))
    if kind == 'FIXED':
        w = cfg['field_length']
        n = w if exact else draw(uniform(1, w))
        text = draw(tiled_text(codec, n))
        if not exact and not text.strip(' '):
            pass
        return text
    n = draw(var_length(maxlen))
    return draw(tiled_text(codec, n))


MTI = st.one_of(st.sampled_from(['1144', '1240', '1442', '1644', '1740', '0000', '9999', '0100']),
                st.text(alphabet='0123456789', min_size=4, max_size=4))


# (MTI, function code DE24) pairs with a meaning in the clearing protocol: file header and trailer, presentments,
# chargebacks, fee collection, reconciliation, rejects, text. To the library they are messages like any other, wherever
# they stand in a file.
PROTOCOL_PAIRS = ([('1644', '697'), ('1644', '695')] * 3 +
                  [('1644', '603'), ('1644', '605'), ('1644', '640'), ('1644', '680'), ('1644', '685'), ('1644', '688'), ('1644', '691'),
                   ('1644', '693'), ('1644', '699'), ('1240', '200'), ('1240', '205'), ('1240', '282'), ('1442', '450'), ('1442', '451'),
                   ('1442', '453'), ('1442', '454'), ('1740', '700'), ('1740', '780'), ('1740', '781'), ('1740', '782'), ('1740', '783'),
                   ('1740', '790')])


@st.composite
def messages(draw, config, codec, exact=True, pds_mode='keys', typed_as_str=False, min_elements=0, pds_big=False, rich=False):
    """a well-formed message for `config`.
    pds_mode: 'keys' (PDSxxxx keys, carriers left to the encoder), 'none' (carriers unused), 'raw' handled by callers."""
    bits = sorted(int(b) for b in config)
    carriers = [b for b in bits if config[str(b)].get('field_processor') == 'PDS']
    plain = [b for b in bits if b not in carriers]
    how = draw(st.sampled_from(['some', 'some', 'some', 'all', 'one', 'few']))
    if how == 'all' or not plain:
        chosen = list(plain)
    elif how == 'one':
        chosen = [draw(st.sampled_from(plain))]
    elif how == 'few':
        chosen = draw(st.lists(st.sampled_from(plain), min_size=min_elements, max_size=3, unique=True))
    else:
        chosen = draw(st.lists(st.sampled_from(plain), min_size=min_elements, max_size=len(plain), unique=True))
    if rich:
        # parser-heavy shapes on purpose: the ICC / DE43 elements and PDS sub-elements whenever the configuration has them
        for b in plain:
            if config[str(b)].get('field_processor') in ('ICC', 'DE43') and b not in chosen and draw(uniform(0, 7)) > 0:
                chosen.append(b)
    msg = {'MTI': draw(MTI)}
    for b in sorted(chosen):
        msg['DE%d' % b] = draw(value_for(config[str(b)], codec, exact=exact, typed_as_str=typed_as_str))
    if carriers and pds_mode == 'keys' and (draw(st.booleans()) or (rich and draw(uniform(0, 7)) > 0)):
        msg.update(draw(pds_sets(codec, len(carriers), big=pds_big, min_items=2 if rich else 1)))
    c24 = config.get('24')
    if c24 and c24.get('field_type') == 'FIXED' and c24.get('field_length') == 3 and not c24.get('field_python_type') \
            and not c24.get('field_processor') and draw(uniform(0, 4)) == 0:
        msg['MTI'], msg['DE24'] = draw(st.sampled_from(PROTOCOL_PAIRS))
    return msg


def codec_strategy(tier):
    if tier == 'quick':
        return st.sampled_from(codecs_.QUICK)
    u = codecs_.universe()
    return st.one_of(st.sampled_from(codecs_.QUICK), st.sampled_from(u))


def describe(config):
    """short text for evidence samples"""
    out = {}
    for b, c in sorted(config.items(), key=lambda kv: int(kv[0])):
        s = c['field_type']
        if c['field_type'] == 'FIXED':
            s += str(c['field_length'])
        if c.get('field_python_type'):
            s += ':' + c['field_python_type']
        if c.get('field_processor'):
            s += ':' + c['field_processor']
        out[b] = s
    return out


_SHARED_CONFIG = {}


def same_object(config, k):
    """every third call hands the configuration over in ONE long-lived dict object whose contents are replaced from call
    to call (an application that edits its configuration in place): equal contents, but the identity of the object says
    nothing about them"""
    if k % 3:
        return config
    _SHARED_CONFIG.clear()
    _SHARED_CONFIG.update(config)
    return _SHARED_CONFIG
