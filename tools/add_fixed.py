#!/usr/bin/env python3
"""add_fixed.py <property> <commit> <signature> <what failed>  -- append a 'fixed' entry to known_findings.json"""
import json, sys
prop, commit, sig, what = sys.argv[1:5]
p = '/verif/known_findings.json'
f = json.load(open(p))
f['fixed'].append({'property': prop, 'commit': commit, 'signature': sig, 'what': what,
                   'line': f'fixed: property={prop} {commit} {what}'})
json.dump(f, open(p, 'w'), indent=1)
open(p, 'a').write('\n')
