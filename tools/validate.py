#!/usr/bin/env python3
"""Validate MANIFEST.json and every evidence file against the given schemas (run with python3-vt: has jsonschema)."""
import glob
import json
import sys
import jsonschema

ok = True
m = json.load(open('/verif/MANIFEST.json'))
try:
    jsonschema.validate(m, json.load(open('/root/.vp/MANIFEST.schema.json')))
    print('MANIFEST ok')
except jsonschema.ValidationError as e:
    ok = False
    print('MANIFEST INVALID', e.message)
es = json.load(open('/root/.vp/EVIDENCE.schema.json'))
for c in m['checks']:
    try:
        ev = json.load(open('/verif/' + c['evidence_file']))
        jsonschema.validate(ev, es)
        assert ev['level'] == c['level_claimed']['category'], 'level mismatch'
        print(c['property_id'], 'evidence ok', ev['tier'], ev['coverage']['evaluations'], ev['coverage']['distinct_nontrivial'], ev['wall_s'])
    except Exception as e:  # noqa
        ok = False
        print(c['property_id'], 'EVIDENCE PROBLEM', str(e)[:300])
sys.exit(0 if ok else 1)
