#!/usr/bin/env python3
"""verify_seed.py <worktree> <seed-id> <property>

Collect a sub-agent's change from its scratch worktree into /verif/seeded/<seed-id>/ (patch.diff, demo.py, NOTES.md),
then confirm independently in a fresh scratch copy of /repo: the patch applies, the repository suite still passes,
the demonstration fails with the change and passes without it, and record what our check says. Writes meta.json."""
import json
import os
import pathlib
import shutil
import subprocess
import sys
import tempfile
import time

wt, sid, prop = sys.argv[1:4]
tier = sys.argv[4] if len(sys.argv) > 4 else 'quick'
VERIF = pathlib.Path('/verif')
dest = VERIF / 'seeded' / sid
dest.mkdir(parents=True, exist_ok=True)
diff = subprocess.run(['git', '-C', wt, 'diff', 'HEAD', '--', 'cardutil'], capture_output=True, text=True, check=True).stdout
if not diff.strip():
    print('NO DIFF in', wt)
    sys.exit(1)
(dest / 'patch.diff').write_text(diff)
for name in ('demo.py', 'NOTES.md'):
    src = pathlib.Path(wt) / name
    if src.exists():
        shutil.copy(src, dest / name)


def fresh():
    d = pathlib.Path(tempfile.mkdtemp(prefix='cardutil-verif-seed-'))
    subprocess.run(f'cd /repo && git ls-files -z | xargs -0 cp --parents -t {d}', shell=True, check=True)
    return d


def run(cmd, cwd, env=None, timeout=3600):
    e = dict(os.environ, PYTHONPATH=str(cwd), PYTHONDONTWRITEBYTECODE='1')
    if env:
        e.update(env)
    return subprocess.run(cmd, cwd=cwd, capture_output=True, text=True, env=e, timeout=timeout)


meta = {'property': prop, 'seed': sid, 'tier_run': tier}
clean = fresh()
mut = fresh()
try:
    r = subprocess.run(['patch', '-p1', '-s', '-i', str(dest / 'patch.diff')], cwd=mut, capture_output=True, text=True)
    meta['patch_applies'] = r.returncode == 0
    r = run(['/venv/bin/python', '-m', 'pytest', '-q', '-p', 'no:cacheprovider', '--timeout=600'], mut)
    meta['suite_with_change'] = (r.stdout.strip().splitlines() or ['?'])[-1]
    meta['suite_passes_with_change'] = r.returncode == 0
    demo = dest / 'demo.py'
    if demo.exists():
        text = demo.read_text().replace(wt, '{REPO}')
        r1 = run(['/venv/bin/python', str(demo)], mut, env={'PYTHONPATH': str(mut)})
        r0 = run(['/venv/bin/python', str(demo)], clean, env={'PYTHONPATH': str(clean)})
        meta['demo_fails_with_change'] = r1.returncode != 0
        meta['demo_passes_without_change'] = r0.returncode == 0
        meta['demo_output_with_change'] = (r1.stdout + r1.stderr)[-600:]
    t0 = time.time()
    env = dict(os.environ, VERIF_REPO=str(mut), VERIF_OUT=str(mut / '.verif-out'), PYTHONHASHSEED='0')
    r = subprocess.run(['/venv/bin/python', str(VERIF / 'run.py'), prop, '--tier', tier], capture_output=True, text=True, env=env, cwd=VERIF)
    meta['check_exit'] = r.returncode
    meta['check_wall_s'] = round(time.time() - t0, 1)
    meta['check_signatures'] = [l.split('signature=')[1][:300] for l in r.stdout.splitlines() if l.startswith('violation signature=')][:6]
    meta['detected'] = r.returncode == 1
    if r.returncode == 2:
        meta['harness_error'] = (r.stdout + r.stderr)[-800:]
    meta['what_was_run'] = [f'patch -p1 < patch.diff in a scratch copy of /repo', 'pytest -q (repository suite)', 'demo.py with and without the change',
                            f'VERIF_REPO=<scratch> run.py {prop} --tier {tier}']
finally:
    shutil.rmtree(clean, ignore_errors=True)
    shutil.rmtree(mut, ignore_errors=True)
old = {}
if (dest / 'meta.json').exists():
    old = json.load(open(dest / 'meta.json'))
old.update(meta)
json.dump(old, open(dest / 'meta.json', 'w'), indent=1)
print(json.dumps(meta, indent=1))
