#!/usr/bin/env python3
"""Regenerate MANIFEST.json from the table below (keeps it valid while properties are added one by one)."""
import json
import os

HERE = os.path.dirname(os.path.dirname(os.path.abspath(__file__)))
PY = '/venv/bin/python'

# id -> (level, technique, level text, level note, design ref)
CHECKS = {}
NOT_YET = {}


def check(pid, level, technique, text, note, ref):
    CHECKS[pid] = (level, technique, text, note, ref)


exec(open(os.path.join(HERE, 'tools', 'manifest_table.py')).read())

props = [json.loads(l) for l in open(os.path.join(HERE, 'properties.jsonl'))]
checks = []
na = []
for p in props:
    pid = p['id']
    if pid in CHECKS:
        level, technique, text, note, ref = CHECKS[pid]
        checks.append({
            'property_id': pid,
            'quick_cmd': f'{PY} run.py {pid} --tier quick',
            'thorough_cmd': f'{PY} run.py {pid} --tier thorough',
            'evidence_file': f'evidence/{pid}.json',
            'replay_cmd_template': f'{PY} run.py {pid} --replay {{path}}',
            'engine': 'pbt',
            'level_claimed': {'category': level, 'text': text, 'design_ref': ref},
            'level_note': note,
            'technique': technique,
        })
    else:
        na.append({'property_id': pid, 'reason': NOT_YET.get(pid, 'check not built yet in this session; design in DESIGN.md section 4')})

manifest = {
    'version': 1,
    'setup_cmd': './setup.sh',
    'hooks': {
        'guard': 'ADELOSA_CARDUTIL_VERIF',
        'enable': 'no source hooks exist: every property is observed at the public API and the step counter (sys.monitoring) is external; the variable is reserved and unused',
        'baseline_off_cmd': 'cd /repo && /venv/bin/python -m pytest -ra -q -p no:cacheprovider --timeout=900 --continue-on-collection-errors',
        'source_commits': [],
        'add_only': True,
    },
    'engines': [{
        'name': 'pbt', 'path': 'run.py', 'serves_properties': sorted(CHECKS),
        'kind_free_text': 'Hypothesis strategies and rule-based state machines, exhaustive enumeration of finite sub-spaces, atheris coverage-guided fuzzing; independent reference codecs/ciphers as oracles',
    }],
    'checks': checks,
    'not_applicable': na,
    'notes': 'run.py <ID> --tier quick|thorough; exit 0 ok, 1 VIOLATION, 2 harness error. VERIF_SEED selects the seed; VERIF_REPO (default /repo) the tree under test. Fix commits in /repo are listed in known_findings.json under "fixed".',
}
with open(os.path.join(HERE, 'MANIFEST.json'), 'w') as f:
    json.dump(manifest, f, indent=1)
    f.write('\n')
print('checks:', len(checks), 'not_applicable:', len(na))
