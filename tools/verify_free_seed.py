#!/usr/bin/env python3
"""verify_free_seed.py <worktree> <seed-id>: like verify_seed.py but the agent chose the property (first line of NOTES.md:
`BREAKS: Cxx[, Cyy]`); ALL 20 quick checks are run and the ones that flag are recorded."""
import json
import os
import pathlib
import re
import shutil
import subprocess
import sys
import tempfile

wt, sid = sys.argv[1:3]
VERIF = pathlib.Path('/verif')
dest = VERIF / 'seeded' / sid
dest.mkdir(parents=True, exist_ok=True)
diff = subprocess.run(['git', '-C', wt, 'diff', 'HEAD', '--', 'cardutil'], capture_output=True, text=True, check=True).stdout
if not diff.strip():
    print('NO DIFF')
    sys.exit(1)
(dest / 'patch.diff').write_text(diff)
for name in ('demo.py', 'NOTES.md'):
    src = pathlib.Path(wt) / name
    if src.exists():
        shutil.copy(src, dest / name)
first = (dest / 'NOTES.md').read_text().splitlines()[0] if (dest / 'NOTES.md').exists() else ''
claimed = re.findall(r'C\d\d', first)


def fresh():
    d = pathlib.Path(tempfile.mkdtemp(prefix='cardutil-verif-seed-'))
    subprocess.run(f'cd /repo && git ls-files -z | xargs -0 cp --parents -t {d}', shell=True, check=True)
    return d


meta = {'seed': sid, 'claimed_properties': claimed, 'property': claimed[0] if claimed else '?'}
clean, mut = fresh(), fresh()
try:
    r = subprocess.run(['patch', '-p1', '-s', '-i', str(dest / 'patch.diff')], cwd=mut, capture_output=True, text=True)
    meta['patch_applies'] = r.returncode == 0
    env0 = dict(os.environ, PYTHONDONTWRITEBYTECODE='1')
    r = subprocess.run(['/venv/bin/python', '-m', 'pytest', '-q', '-p', 'no:cacheprovider', '--timeout=600'], cwd=mut, capture_output=True, text=True, env=dict(env0, PYTHONPATH=str(mut)))
    meta['suite_with_change'] = (r.stdout.strip().splitlines() or ['?'])[-1]
    meta['suite_passes_with_change'] = r.returncode == 0
    if (dest / 'demo.py').exists():
        shutil.copy(dest / 'demo.py', mut / 'demo.py')      # some demos insist on sitting next to the package they import
        shutil.copy(dest / 'demo.py', clean / 'demo.py')
        r1 = subprocess.run(['/venv/bin/python', str(mut / 'demo.py')], cwd=mut, capture_output=True, text=True, env=dict(env0, PYTHONPATH=str(mut)), timeout=1800)
        r0 = subprocess.run(['/venv/bin/python', str(clean / 'demo.py')], cwd=clean, capture_output=True, text=True, env=dict(env0, PYTHONPATH=str(clean)), timeout=1800)
        meta['demo_fails_with_change'] = r1.returncode != 0
        meta['demo_passes_without_change'] = r0.returncode == 0
    flagged = {}
    for i in range(1, 21):
        prop = 'C%02d' % i
        env = dict(os.environ, VERIF_REPO=str(mut), VERIF_OUT=str(mut / '.verif-out'), PYTHONHASHSEED='0')
        r = subprocess.run(['/venv/bin/python', str(VERIF / 'run.py'), prop, '--tier', 'quick'], capture_output=True, text=True, env=env, cwd=VERIF)
        if r.returncode != 0:
            flagged[prop] = {'exit': r.returncode, 'signatures': [l.split('signature=')[1][:200] for l in r.stdout.splitlines() if l.startswith('violation signature=')][:3]}
    meta['checks_flagging'] = flagged
    meta['detected'] = any(v['exit'] == 1 for v in flagged.values())
    meta['detected_by_claimed_property'] = any(flagged.get(c, {}).get('exit') == 1 for c in claimed)
    meta['check_signatures'] = [s for c in claimed for s in flagged.get(c, {}).get('signatures', [])][:4]
    meta['what_was_run'] = ['patch -p1 < patch.diff in a scratch copy of /repo', 'pytest -q (repository suite)', 'demo.py with and without the change',
                            'VERIF_REPO=<scratch> run.py <every property> --tier quick']
finally:
    shutil.rmtree(clean, ignore_errors=True)
    shutil.rmtree(mut, ignore_errors=True)
json.dump(meta, open(dest / 'meta.json', 'w'), indent=1)
print(json.dumps(meta, indent=1))
