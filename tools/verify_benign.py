#!/usr/bin/env python3
"""verify_benign.py <worktree> <name>: collect a behaviour-preserving refactor into selftest/benign/<name>.diff (+ .md notes),
confirm the suite passes with it and run ALL checks against it; print which (if any) raise an alarm."""
import os
import pathlib
import shutil
import subprocess
import sys
import tempfile

wt, name = sys.argv[1:3]
VERIF = pathlib.Path('/verif')
diff = subprocess.run(['git', '-C', wt, 'diff', 'HEAD', '--', 'cardutil'], capture_output=True, text=True, check=True).stdout
if not diff.strip():
    print('NO DIFF')
    sys.exit(1)
dest = VERIF / 'selftest' / 'benign' / f'{name}.diff'
dest.write_text(diff)
notes = pathlib.Path(wt) / 'NOTES.md'
if notes.exists():
    shutil.copy(notes, VERIF / 'selftest' / 'benign' / f'{name}.md')
d = pathlib.Path(tempfile.mkdtemp(prefix='cardutil-verif-benign-'))
try:
    subprocess.run(f'cd /repo && git ls-files -z | xargs -0 cp --parents -t {d}', shell=True, check=True)
    subprocess.run(['patch', '-p1', '-s', '-i', str(dest)], cwd=d, check=True)
    r = subprocess.run(['/venv/bin/python', '-m', 'pytest', '-q', '-p', 'no:cacheprovider'], cwd=d, capture_output=True, text=True,
                       env=dict(os.environ, PYTHONPATH=str(d), PYTHONDONTWRITEBYTECODE='1'))
    print(name, 'suite:', (r.stdout.strip().splitlines() or ['?'])[-1])
    alarms = []
    for i in range(1, 21):
        prop = 'C%02d' % i
        env = dict(os.environ, VERIF_REPO=str(d), VERIF_OUT=str(d / '.verif-out'), PYTHONHASHSEED='0')
        r = subprocess.run(['/venv/bin/python', str(VERIF / 'run.py'), prop, '--tier', 'quick'], capture_output=True, text=True, env=env, cwd=VERIF)
        if r.returncode != 0:
            sigs = [l for l in r.stdout.splitlines() if l.startswith('violation signature=') or l.startswith('HARNESS')]
            alarms.append((prop, r.returncode, [s[:400] for s in sigs[:4]]))
    print(name, 'alarms:', len(alarms))
    for a in alarms:
        print('  ', a)
finally:
    shutil.rmtree(d, ignore_errors=True)
