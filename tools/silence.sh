#!/bin/sh
# silence.sh <tier> <seed...> : run every registered check at the given seeds on the unchanged tree; anything but exit 0 is printed
tier=$1; shift
out=${VERIF_OUT:-/tmp/cardutil-verif-silence}
mkdir -p $out
for seed in "$@"; do
  for p in C01 C02 C03 C04 C05 C06 C07 C08 C09 C10 C11 C12 C13 C14 C15 C16 C17 C18 C19 C20; do
    VERIF_OUT=$out VERIF_SEED=$seed PYTHONHASHSEED=0 /venv/bin/python /verif/run.py $p --tier $tier > $out/$p-$seed.log 2>&1
    rc=$?
    echo "$p seed=$seed exit=$rc $(tail -1 $out/$p-$seed.log)"
  done
done
