check('C15', 'exploration',
      'exhaustive enumeration + Hypothesis vs textbook Luhn reference; subprocess runs under -O/-OO',
      'All digit strings up to length 5 (quick) / 7 (thorough) are enumerated against a textbook Luhn reference, with every single-digit substitution and admissible adjacent transposition of the short valid numbers; long numbers with separators are sampled by Hypothesis; the rejection batch is re-run in python, python -O and python -OO subprocesses. Exploration is the right level: the short space is covered completely, the long one by sampling.',
      'Trusts the textbook Luhn reference in props/c15.py and that the subprocess imports cardutil from the tree under test (asserted).',
      'DESIGN.md section 4 C15')
check('C03', 'exploration',
      'exhaustive single-record length sweep + Hypothesis record lists vs independent VBS/1014 reference (byte-exact layout, four writer paths, two reader paths)',
      'Every single-record length 1..6000 (blocked and unblocked) and two-record files around the 1012-byte edge are enumerated; Hypothesis draws record lists with boundary-biased lengths and adversarial contents. Bytes are compared with an independent reference layout and read back. The length space is covered completely, list shapes by sampling, hence exploration.',
      'Trusts vlib/refvbs.py (written from the mciipm module documentation).',
      'DESIGN.md section 4 C03')
check('C04', 'exploration',
      'exhaustive blocker-state x path x write-length enumeration + Hypothesis write histories with per-step prefix invariant; validity predicate from independent 1014 reference',
      'All 1013 internal blocker states, each reached by two chunkings, are crossed with boundary (quick) or all 0..3036 (thorough) next write lengths; longer histories with empty writes and three finalisers are sampled with an invariant after every step. The oracle is a validity predicate (any correct file passes), so a correct alternative implementation is not flagged.',
      'Trusts vlib/refvbs.py; position-coded content makes any moved/dropped/duplicated byte visible.',
      'DESIGN.md section 4 C04')
check('C05', 'fault_enumeration',
      'exhaustive residue x chunking x read-size enumeration + Hypothesis read sequences vs payload/cursor model; every truncation length and trailer-byte substitution for unblock_1014',
      'Reads: every delivered residue, three chunkings, boundary (quick) or all 1..2024 (thorough) next sizes, then size-less read and reads at the end, against a payload+cursor model. unblock_1014: every truncation length and all 255 substitutions of every trailer byte of 1..4-block files must be refused, other substitutions change exactly one payload byte. The fault space named by the property is enumerated per base file.',
      'Trusts vlib/refvbs.py. read(0)/negative sizes are outside the property and not generated.',
      'DESIGN.md section 4 C05')
check('C09', 'fault_enumeration',
      'Hypothesis-generated VBS/1014/IPM files x every truncation offset, vs independent walk of the surviving bytes',
      'For each generated file (record lengths biased to block edges) every truncation offset 0..len(file) is read back; the reader must deliver exactly the records the reference walk finds complete, then end or raise the library error. The crash-point space is enumerated completely per file; the files are sampled.',
      'Trusts vlib/refvbs.py. Both endings (clean end / MciIpmDataError) are accepted at every offset.',
      'DESIGN.md section 4 C09')
check('C11', 'exploration',
      'exhaustive finalisation histories (close / with-exit, length 1..3) x writer class x format x file kind + Hypothesis record lists; read-back and byte-stability oracle',
      'All 14 sequences over {close(), context-manager exit} up to length 3 are run for both writer classes, both formats, in-memory and real files, over enumerated and generated record lists. The file must read back as written and must not change after the first finalisation. The bounded history space is covered completely.',
      'The wrapped file object stays open after close(), as in the documented usage.',
      'DESIGN.md section 4 C11')
check('C01', 'exploration',
      'Hypothesis round trips over generated (configuration, codec, bitmap rendering, message) + exhaustive sweeps of variable-field lengths, numeric extremes and calendar days',
      'loads(dumps(m)) is checked key by key (value and type) over the packaged and generated configurations, all single-byte codecs Python ships and both bitmap renderings; variable-field lengths, numeric extremes and the whole two-digit-year window of DE12 are swept exhaustively in the thorough tier (boundaries in quick). Generated search cannot show absence; the swept sub-spaces are complete.',
      'Values always fit their field; PAN fields hold >= 10 digits; the reference masker is trusted.',
      'DESIGN.md section 4 C01')
check('C02', 'exploration',
      'differential testing against an independent reference codec (both directions), exhaustive single-bit/bit-pair subsets, refusal of over-long variable values',
      'dumps output is compared byte for byte with an independent encoder and loads output key for key with an independent strict decoder on reference-encoded bytes, over generated messages/configurations/codecs; every single bit and bit pair of two configurations is enumerated (pairs sampled in quick); every over-long variable value in the boundary ranges must be refused.',
      'Trusts vlib/refcodec.py, written from the documentation and the vectors pinned by the repository tests.',
      'DESIGN.md section 4 C02')
check('C12', 'exploration',
      'Hypothesis PDS sets + exhaustive boundary sweep of value-length pairs around the 999 limit; dumps output parsed by an independent decoder (validity predicate), loads compared',
      'Carrier contents are parsed independently: each <= 999 characters, whole sub-elements only, ascending tag order across ascending carriers, set equal to the input; loads must return the same PDSxxxx set. Every pair of value lengths putting the running carrier length in 985..1005 is enumerated in the thorough tier (every 9th in quick), also behind full carriers.',
      'In-order greedy packing defines "within capacity"; greedy layout itself is not demanded of the implementation.',
      'DESIGN.md section 4 C12')
check('C16', 'exploration',
      'exhaustive lengths x content classes x mask characters for mask(); Hypothesis masking configurations through loads and IpmReader with exact-mask and clear-PAN-absence oracle',
      'mask() is enumerated over lengths 10..40, five content classes and twelve mask characters and sampled to 99 characters; masking configurations on arbitrary variable-length bits are decoded through loads and IpmReader (VBS and 1014) and the result scanned for the clear PAN. PAN lengths 10..99 / to 999 are swept.',
      'For a 10-character number the masked value is the number itself (first six + last four), so the absence scan skips that element.',
      'DESIGN.md section 4 C16')
check('C07', 'fault_enumeration',
      'fault enumeration at every numeral/bitmap byte (all 256 values), Hypothesis multi-point mutations and random bytes, mutated files through readers and CLI tools; sys.monitoring step budget as hang oracle; atheris in the thorough tier',
      'Every byte value at every length-prefix, PDS-length, bitmap and TLV-length byte of generated base messages is tried, plus sampled multi-point mutations, random bytes, malformed files through VbsReader/IpmReader and the two extraction tools. Any exception other than the library error, or exceeding a deterministic executed-line budget, is a violation bucketed by (entry, exception type, innermost cardutil function). The fault classes named by the property are enumerated per base message; base messages are sampled.',
      'Termination is judged by counted Python lines in cardutil code (not wall clock). Caller-supplied configurations are well-formed.',
      'DESIGN.md section 4 C07')
check('C08', 'fault_enumeration',
      'differential testing against strict and lenient independent reference decoders (three-valued oracle) over valid messages, targeted framing mutations and exhaustive prefix byte values',
      'loads is compared with a strict reference (must accept everything it accepts, with the same dict) and a lenient reference (everything loads accepts must be an exact non-negative tiling that the lenient reference reads identically). Prefix bytes are enumerated (all 256 per digit, interesting-set products, all 65536 LLVAR pairs in thorough); overlapping-element shapes are constructed on purpose.',
      'Trusts vlib/refcodec.py. Non-plain numerals, bit 128/bit 1, ragged PDS tails and malformed TLV content are don\'t-care regions.',
      'DESIGN.md section 4 C08')
check('C10', 'fault_enumeration',
      'fault enumeration: n records x every position k x 13 fault kinds x formats x codecs; expected number and raw bytes from an independent framing/decoding of the faulty file',
      'For n = 1..6 (12) records every position k receives each of 13 fault kinds in VBS and 1014 form under three codecs; Hypothesis adds message/configuration variety. The expected k and raw bytes are computed by the reference framing and decoders from the faulty file itself; records before k must be delivered unchanged and the operator message must name k.',
      'Trusts vlib/refvbs.py and vlib/refcodec.py. Records in a don\'t-care region may be delivered or refused, but a refusal must carry their own number.',
      'DESIGN.md section 4 C10')
check('C13', 'exploration',
      'exhaustive PIN-length x PAN-length pairs and per-position digit sweep + Hypothesis; nibble-level reference blocks; from-scratch 3DES/AES reference (FIPS KAT checked); statistical freshness test',
      'All 63 length pairs and every digit at every position are enumerated each run; PINs, PANs, supplied fills and keys of every allowed size are drawn by Hypothesis. Clear blocks are compared with a nibble-by-nibble construction from the statement, ciphertexts with an independent DES/AES, and the un-supplied fill must behave like 64 fresh random bits over 200 blocks.',
      'Reference ciphers are validated against FIPS known answers at start-up (failure = exit 2). The freshness test is statistical (false-alarm probability < 2^-49).',
      'DESIGN.md section 4 C13')
check('C14', 'exploration',
      'Hypothesis over (PIN, PAN, index, key) and component lists vs from-scratch DES/3DES; constructed inputs for each second-decimalisation class',
      'PVV, KCV and component combination are compared with an independent implementation of the published algorithms. Inputs whose ciphertext holds exactly 0, 1, 2 or 3 decimal digits (so the second scan supplies 4, 3, 2, 1 digits) are constructed by decrypting shaped blocks, with a floor on the count per class.',
      'cryptography is used only to propose candidate blocks quickly; each is confirmed with the reference cipher, which alone decides.',
      'DESIGN.md section 4 C14')
check('C06', 'exploration',
      'Hypothesis rule-based state machine over several live IpmWriter/IpmReader instances (model: per-file message list + per-reader cursor) and @given lists of up to 400 heterogeneous messages',
      'Writers and readers on different files are created, used and closed in interleavings chosen by Hypothesis; every read is compared with the reader\'s own model and its record counter with its own count, so any shared state shows up. Long heterogeneous lists (to 400 records, tens of blocks) are round-tripped in VBS and 1014 form. Histories are sampled, not exhausted.',
      'Interleaving is of calls within one thread. Failing histories are logged with full arguments and replay as a plain script.',
      'DESIGN.md section 4 C06')
check('C17', 'exploration',
      'enumeration of block counts x 8 encodings x blocking over IpmWriter output + Hypothesis messages; boundary enumeration of every invalid class',
      'Writer-produced files are grown to exactly 1..10 and 20 blocks in four ASCII-family and four EBCDIC-family encodings, blocked and unblocked, and inspected; each invalid class is enumerated at its boundaries (lengths 0..24, first length around three maxima, each of the 127 single bits).',
      'An unblocked file with 0x40 0x40 at bytes 1012-1013 is a don\'t-care for isBlocked.',
      'DESIGN.md section 4 C17')
check('C18', 'exploration',
      'Hypothesis synthetic extract files (index, trailer, interleaved rows incl. look-alike foreign tables) in compressed and expanded form vs independent slicing; CSV parsed back; refusal cases',
      'Extract files are synthesised with random index assignments, tables without rows, foreign tables whose ids differ only in the last characters, interleaved rows and trailer lines, in both representations, four encodings, blocked and unblocked, over the packaged tables and generated layouts. Rows, timestamps, codes and every column are compared with an independent slicing, the CSV tool output is parsed back, and the two refusal cases are checked for each file.',
      'Sub-ids never equal "REC"; row text is printable (rows also travel through CSV).',
      'DESIGN.md section 4 C18')
check('C19', 'exploration',
      'Hypothesis writer-produced IPM files (canonical and non-canonical PDS carriers, binary DE55) and arbitrary-byte parameter files through all four tools; differential read-back under A and B + byte-exact return conversion',
      'Every ordered pair of {latin_1, cp500, cp037} and every combination of VBS/1014 input and output is driven through mci_ipm_encode (function and command), mideu convert, mci_ipm_param_encode (function and command) and paramconv on generated files; records must read back equal under B and the return conversion must reproduce the original bytes.',
      'Inputs are written by the library\'s writers; the three encodings share one 256-character repertoire.',
      'DESIGN.md section 4 C19')
check('C20', 'exploration',
      'Hypothesis CSV tables (boundary lengths, CSV metacharacters, typed cells, packaged and generated column lists) through mci_csv_to_ipm then mci_ipm_to_csv via functions and command entry points on real files; supplied-cell comparison',
      'Tables of 1..40 rows over the input-capable output columns are converted to IPM and back in three encodings, blocked and unblocked, through the function entry points and through cli_run on real files; every supplied cell must come back equal (text exactly, numbers numerically, date-times after parsing).',
      'Empty cells mean absent; cells hold no control characters; python-dateutil is installed.',
      'DESIGN.md section 4 C20')
