check('C15', 'exploration',
      'exhaustive enumeration + Hypothesis vs textbook Luhn reference; subprocess runs under -O/-OO',
      'All digit strings up to length 5 (quick) / 7 (thorough) are enumerated against a textbook Luhn reference, with every single-digit substitution and admissible adjacent transposition of the short valid numbers; long numbers with separators are sampled by Hypothesis; the rejection batch is re-run in python, python -O and python -OO subprocesses. Exploration is the right level: the short space is covered completely, the long one by sampling.',
      'Trusts the textbook Luhn reference in props/c15.py and that the subprocess imports cardutil from the tree under test (asserted).',
      'DESIGN.md section 4 C15')
check('C03', 'exploration',
      'exhaustive single-record length sweep + Hypothesis record lists vs independent VBS/1014 reference (byte-exact layout, four writer paths, two reader paths)',
      'Every single-record length 1..6000 (blocked and unblocked) and two-record files around the 1012-byte edge are enumerated; Hypothesis draws record lists with boundary-biased lengths and adversarial contents. Bytes are compared with an independent reference layout and read back. The length space is covered completely, list shapes by sampling, hence exploration.',
      'Trusts vlib/refvbs.py (written from the mciipm module documentation).',
      'DESIGN.md section 4 C03')
check('C04', 'exploration',
      'exhaustive blocker-state x path x write-length enumeration + Hypothesis write histories with per-step prefix invariant; validity predicate from independent 1014 reference',
      'All 1013 internal blocker states, each reached by two chunkings, are crossed with boundary (quick) or all 0..3036 (thorough) next write lengths; longer histories with empty writes and three finalisers are sampled with an invariant after every step. The oracle is a validity predicate (any correct file passes), so a correct alternative implementation is not flagged.',
      'Trusts vlib/refvbs.py; position-coded content makes any moved/dropped/duplicated byte visible.',
      'DESIGN.md section 4 C04')
check('C05', 'fault_enumeration',
      'exhaustive residue x chunking x read-size enumeration + Hypothesis read sequences vs payload/cursor model; every truncation length and trailer-byte substitution for unblock_1014',
      'Reads: every delivered residue, three chunkings, boundary (quick) or all 1..2024 (thorough) next sizes, then size-less read and reads at the end, against a payload+cursor model. unblock_1014: every truncation length and all 255 substitutions of every trailer byte of 1..4-block files must be refused, other substitutions change exactly one payload byte. The fault space named by the property is enumerated per base file.',
      'Trusts vlib/refvbs.py. read(0)/negative sizes are outside the property and not generated.',
      'DESIGN.md section 4 C05')
check('C09', 'fault_enumeration',
      'Hypothesis-generated VBS/1014/IPM files x every truncation offset, vs independent walk of the surviving bytes',
      'For each generated file (record lengths biased to block edges) every truncation offset 0..len(file) is read back; the reader must deliver exactly the records the reference walk finds complete, then end or raise the library error. The crash-point space is enumerated completely per file; the files are sampled.',
      'Trusts vlib/refvbs.py. Both endings (clean end / MciIpmDataError) are accepted at every offset.',
      'DESIGN.md section 4 C09')
check('C11', 'exploration',
      'exhaustive finalisation histories (close / with-exit, length 1..3) x writer class x format x file kind + Hypothesis record lists; read-back and byte-stability oracle',
      'All 14 sequences over {close(), context-manager exit} up to length 3 are run for both writer classes, both formats, in-memory and real files, over enumerated and generated record lists. The file must read back as written and must not change after the first finalisation. The bounded history space is covered completely.',
      'The wrapped file object stays open after close(), as in the documented usage.',
      'DESIGN.md section 4 C11')
