check('C15', 'exploration',
      'exhaustive enumeration + Hypothesis vs textbook Luhn reference; subprocess runs under -O/-OO',
      'All digit strings up to length 5 (quick) / 7 (thorough) are enumerated against a textbook Luhn reference, with every single-digit substitution and admissible adjacent transposition of the short valid numbers; long numbers with separators are sampled by Hypothesis; the rejection batch is re-run in python, python -O and python -OO subprocesses. Exploration is the right level: the short space is covered completely, the long one by sampling.',
      'Trusts the textbook Luhn reference in props/c15.py and that the subprocess imports cardutil from the tree under test (asserted).',
      'DESIGN.md section 4 C15')
