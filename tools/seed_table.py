#!/usr/bin/env python3
"""print the seeded-change matrix from seeded/*/meta.json"""
import glob
import json
import os

rows = []
for f in sorted(glob.glob(os.path.join(os.path.dirname(os.path.dirname(os.path.abspath(__file__))), 'seeded', '*', 'meta.json'))):
    m = json.load(open(f))
    rows.append((m['property'], os.path.basename(os.path.dirname(f)), 'detected' if m.get('detected') else 'MISSED',
                 'first version missed' if m.get('missed_by_first_version_of_check') else '', (m.get('check_signatures') or [''])[0][:70]))
for r in rows:
    print('%-4s %-42s %-9s %-21s %s' % r)
print(len(rows), 'changes;', sum(1 for r in rows if r[2] == 'detected'), 'detected;', sum(1 for r in rows if r[3]), 'missed by the first version')
